"""C07 - stored recordings round-trip through every cassette (in-memory, file-based, S3)."""
import copy
import json

from lib import pyvals as pv
from lib.gallina import gstr, gbool, glist, gpair

ID = "C07"
LOG_LEVEL_INVARIANT = True      # (harness/vp.py: a sample of the cases again with logging at DEBUG; same observables)
RUN_MODULE = "RunC07"
DRIVER = "cassette_driver.py"
SHARD = 40
RULE = ("one case = a history of create / hand-made recording / fill / save / re-save / get_recording / "
        "get_recording_metadata calls (plus a client scribbling on objects it fetched or had saved) on one real cassette "
        "(in-memory, file-based in a scratch directory, S3 over the fake bucket with key prefix '', 'p', 'a/b', non-ASCII); "
        "key texts with quotes, unicode, separators, JSON metacharacters; values from the faithful-domain generator "
        "(tuples, bytes, nested containers, objects, class references, big ints, floats); every saved id is fetched again "
        "at the end of the history (after the later saves of other ids); streams: main, reserved-key probe (F07b), "
        "shared-sub-object probe (F07c), shared sub-objects next to early data keys (deterministic, implementation side: plain "
        "lists / dicts referenced twice inside the metadata or by metadata and data, in recordings whose data keys sort before "
        "'_metadata' - upper case, digit, quote, punctuation, empty - after it, and on both sides; metadata fetched on its own "
        "first, then the full recording, then the metadata again; every cassette kind x prefixes), file-path collision (hand-made ids, observation), asked-early (an id is asked for - "
        "full and metadata-only - before its recording is created / filled / saved and again after the save, through the "
        "saving cassette object or through a second object over the same directory / bucket + prefix that lives for the "
        "whole history: 6 deterministic probes + a random stream), long (deterministic probes per cassette kind: two recordings are "
        "saved, then a run of 550 other recordings (`bulk`: create + save on the same cassette), the two are fetched, one is "
        "saved again with new content and a third is saved, 560 more recordings follow, then all three, the first and the last "
        "of the others and never-saved ids are fetched, full and metadata-only - 1100+ saves between a save and its fetch; the "
        "number of stored names is compared after every call instead of the names; the 1100-recording S3 history runs without the "
        "model in the quick tier, a 316-recording one with it), deep (deterministic, implementation side only: a value and / or a "
        "metadata value nested 48-100 containers deep - chains of lists, tuples, dicts, object instances (24-45 of them: two "
        "encoder levels each) and mixtures, with sibling values on the way down - saved on each cassette kind, another "
        "recording saved after it, then fetched in full and metadata-only); non-trivial = at least one "
        "successful save of a non-empty recording that is fetched afterwards; distinct = distinct case")
ASSUMPTIONS = ["json.loads(json.dumps(j)) == j on the well-formed JSON trees jwf that the serializer produces (premise of the "
               "oracle-parametric theorems, restricted to jwf because no function satisfies it on all json terms; a THEOREM "
               "for the concrete parser Values/JsonParse.v, so the *_concrete theorems carry no oracle premise; also "
               "re-evaluated on every saved value of every case, together with the leaf-domain premise rec_leaves_ok)",
               "zlib.decompress(zlib.compress(b)) == b (zlib is the identity in the model run)",
               "quopri round trip for bytes values (simple byte strings in the model run, all byte strings on the implementation side)",
               "floats are carried as their repr text; every float text the harness sends is checked against the grammar "
               "Values.JsonWf.float_repr_ok (lib/pyvals.float_repr raises otherwise)",
               "uuid1().hex has no '_' and no '/' (32 hex digits); replaced by a deterministic fake",
               "recording ids are non-empty, contain no NUL and give file names shorter than the OS limit"]
TRUSTED = ["fake bucket behind the real S3BasicFacade; scratch directory for the file cassette",
           "a second cassette object over the same store is modelled as the same store (the models keep no per-object state: "
           "a cassette object that remembers earlier answers disagrees with them)",
           "pyval is tree shaped: sharing (py/id references) is covered by the direct predicate only, not by the model"]

CATS = ["Op", "OpX", "a_b", "svc.Op", "é"]
HAND_IDS = ["Op/abc", "Op/é 日本", 'Op/q"uote', "x", "Op/new\nline", "Op/a.b", "Op/..", "back\\slash/1", "Op/20200227/h",
            "a/b/c", "{json}/[1]", "Op/ sp ", "Op/1,2: 3"]
DATA_KEYS = pv.KEY_TEXTS + ["input: get_user args=(1,), kwargs={}", "output: db.save #1 result", "k2", "scribbled", "id",
                            "recording_data", "_closed"]
META_KEYS = ["m", "duration", "recorded_at", "é", 'q"', "a/b", "", "class", "_metadata", "py/x", "id"]
PREFIXES = ["", "p", "a/b", "é x", "p"]
META = "_metadata"


def rand_val(rng, depth, sets):
    return pv.rand_pyval(rng, depth, sets=sets, objs=True, unser=False, floats=True)


def rand_items(rng, keys, maxn, depth, sets, forbid=()):
    ks = [k for k in rng.sample(keys, rng.randrange(0, maxn + 1)) if k not in forbid]
    return [[k, rand_val(rng, rng.randrange(0, depth + 1), sets)] for k in ks]


# ---- shared sub-objects ------------------------------------------------------------------------
def rand_shared(rng, depth, pool, p_ref):
    """a value that may reference pool entries ({"t":"ref"}) and appends the containers it builds to the pool"""
    if pool and rng.random() < p_ref:
        return {"t": "ref", "n": rng.randrange(len(pool))}
    k = rng.randrange(10 if depth > 0 else 4)
    if k < 4:
        return rng.choice([pv.i(rng.randrange(-3, 9)), pv.s(rng.choice(["a", "é", "b\"c"])), pv.none(), pv.b(True)])
    n = rng.randrange(0, 4)
    if k in (4, 5, 6):
        v = pv.lst([rand_shared(rng, depth - 1, pool, p_ref) for _ in range(n)])
    elif k == 7:
        v = pv.tup([rand_shared(rng, depth - 1, pool, p_ref) for _ in range(n)])
    elif k == 8:
        v = pv.dct([(kk, rand_shared(rng, depth - 1, pool, p_ref)) for kk in rng.sample(["a", "b", "c", "d e"], n)])
    else:
        v = {"t": "obj", "cls": "lib.pyvals.Pt",
             "v": [[kk, rand_shared(rng, depth - 1, pool, p_ref)] for kk in rng.sample(["x", "y", "z"], max(1, min(n, 3)))]}
    pool.append(v)
    return {"t": "ref", "n": len(pool) - 1}


def expand(j, pool):
    t = j["t"]
    if t == "ref":
        return expand(pool[j["n"]], pool)
    if t in ("list", "tuple", "set"):
        return {"t": t, "v": [expand(x, pool) for x in j["v"]]}
    if t == "dict":
        return {"t": t, "v": [[k, expand(v, pool)] for k, v in j["v"]]}
    if t == "obj":
        return {"t": t, "cls": j["cls"], "v": [[k, expand(v, pool)] for k, v in j["v"]]}
    return j


def contains(j, pred):
    if pred(j):
        return True
    t = j["t"]
    if t in ("list", "tuple", "set"):
        return any(contains(x, pred) for x in j["v"])
    if t in ("dict", "obj"):
        return any(contains(v, pred) for _, v in j["v"])
    return False


def list_in_state(j):
    """an object instance whose state holds a list (reached through lists / dicts of the state)"""
    def holds_list(x):
        if x["t"] == "list":
            return True
        if x["t"] == "dict":
            return any(holds_list(v) for _, v in x["v"])
        return False
    return contains(j, lambda x: x["t"] == "obj" and any(holds_list(v) for _, v in x["v"]))


def count_refs(j, acc):
    t = j["t"]
    if t == "ref":
        acc[j["n"]] = acc.get(j["n"], 0) + 1
    elif t in ("list", "tuple", "set"):
        for x in j["v"]:
            count_refs(x, acc)
    elif t in ("dict", "obj"):
        for _, v in j["v"]:
            count_refs(v, acc)


# ---- generation -----------------------------------------------------------------------------------
def gen_case(rng, tier, stream, kind):
    prefix = rng.choice(PREFIXES)
    ops = []
    nslots = 0
    nuuid = 0
    ids = []          # ids believed to be saved
    slot_ids = {}
    sets = rng.random() < 0.25
    n_rec = rng.randrange(1, 5 if tier == "quick" else 8)

    def new_fill(slot, reset):
        forbid = (META,) if (kind == "s3" and stream != "reserved") else ()
        if stream == "shared":
            pool = []
            data = [[k, rand_shared(rng, 3, pool, 0.3)] for k in rng.sample(["k", "k2", "input: x"], rng.randrange(1, 4))]
            meta = [[k, rand_shared(rng, 2, pool, 0.3)] for k in rng.sample(["m", "n"], rng.randrange(0, 3))]
            return dict(op="fill", slot=slot, data=data, meta=meta, pool=pool, reset=reset)
        data = rand_items(rng, DATA_KEYS, 4, 3, sets, forbid)
        meta = rand_items(rng, META_KEYS, 3, 2, sets)
        if stream == "reserved":
            data.append([META, rand_val(rng, 1, False)])
            rng.shuffle(data)
        if stream == "unser" and rng.random() < 0.5:
            data.append(["bad", {"t": "unser", "v": 1}])
        return dict(op="fill", slot=slot, data=data, meta=meta, reset=reset)

    early = stream == "early"

    def via():
        """which cassette object asks: the one that saves, or a second one over the same store (a reader polling while a
        writer saves; for the in-memory cassette, whose store is the object itself, the same object)"""
        return rng.choice(["writer", "reader"]) if early else "writer"

    def ask(rid, p):
        # stream "early": the id is asked for BEFORE it is saved (the answer then: no such recording) - the later save
        # and fetch must not be affected by what was answered earlier
        while early and rng.random() < p:
            ops.append(dict(op=rng.choice(["get", "get_meta"]), id=rid, via=via()))
            p *= 0.5

    for _ in range(n_rec):
        slot = nslots
        nslots += 1
        if stream == "collision":
            rid = ["a/b_c", "a_b/c", "a/b/c", "a_b_c"][slot % 4]
            mk = dict(op="mk", slot=slot, id=rid)
        elif rng.random() < 0.6:
            cat = rng.choice(CATS)
            nuuid += 1
            rid = ("%s/20200227/%032x" if kind == "s3" else "%s/%032x") % (cat, nuuid)
            mk = dict(op="create", slot=slot, cat=cat)
        else:
            rid = rng.choice(HAND_IDS)
            mk = dict(op="mk", slot=slot, id=rid)
        ask(rid, 0.4)                      # before the recording object even exists (the id is predictable)
        ops.append(mk)
        slot_ids[slot] = rid
        ask(rid, 0.5)
        ops.append(new_fill(slot, False))
        ask(rid, 0.5)
        ops.append(dict(op="save", slot=slot))
        ids.append(rid)
        if early and rng.random() < 0.7:
            ops.append(dict(op=rng.choice(["get", "get_meta"]), id=rid, via=via()))
        # interleave reads, scribbles, re-saves
        for _ in range(rng.randrange(0, 4)):
            r = rng.random()
            if r < 0.35:
                ops.append(dict(op="get", id=rng.choice(ids), via=via()))
            elif r < 0.55:
                ops.append(dict(op="get_meta", id=rng.choice(ids), via=via()))
            elif r < 0.65:
                ops.append(dict(op=rng.choice(["get", "get_meta"]), via=via(),
                                id=rng.choice(["Op/never-saved", "nope", rid + "x", rid[:-1]])))
            elif r < 0.80:
                ops.append(dict(op="scribble_fetched", n=rng.randrange(100)))
            elif r < 0.90:
                ops.append(dict(op="scribble_saved", slot=rng.randrange(nslots)))
            else:
                s = rng.randrange(nslots)
                ops.append(new_fill(s, True))
                ops.append(dict(op="save", slot=s))
    # a slot that was scribbled on is refilled before any later save (handled by construction: every re-save refills);
    # finally every saved id is fetched again, twice (a scribble in between), and its metadata alone
    for rid in list(dict.fromkeys(ids)):
        ops.append(dict(op="get", id=rid, via=via()))
        ops.append(dict(op="scribble_fetched", n=len(ops)))
        ops.append(dict(op="get", id=rid, via=via()))
        ops.append(dict(op="get_meta", id=rid, via=via()))
    if not early:
        for o in ops:
            o.pop("via", None)            # the other streams: one cassette object, case format as before
    return dict(kind=kind, prefix=prefix, ops=ops, stream=stream)


def fixed_early(kind, prefix, v):
    """asked (full and metadata-only, through view v) before created / before saved, then saved, then fetched - through
    the same view and through the other one; a second, hand-made recording likewise while the first is re-saved"""
    other = "reader" if v == "writer" else "writer"
    rid = ("Op/20200227/%032x" if kind == "s3" else "Op/%032x") % 1
    fill0 = dict(op="fill", slot=0, reset=False, data=[["k", pv.i(1)], ["input: x", pv.lst([pv.s("a"), pv.i(2)])]],
                 meta=[["m", pv.s("v")]])
    fill1 = dict(op="fill", slot=1, reset=False, data=[["k2", pv.dct([("n", pv.i(3))])]], meta=[])
    refill = dict(op="fill", slot=0, reset=True, data=[["k", pv.i(7)]], meta=[["m", pv.s("w")], ["duration", pv.i(2)]])
    ops = [dict(op="get_meta", id=rid, via=v), dict(op="create", slot=0, cat="Op"), dict(op="get", id=rid, via=v), fill0,
           dict(op="get_meta", id=rid, via=v), dict(op="get", id="Op/abc", via=other),
           dict(op="save", slot=0),
           dict(op="get", id=rid, via=v), dict(op="get_meta", id=rid, via=v), dict(op="get", id=rid, via=other),
           dict(op="mk", slot=1, id="Op/abc"), fill1, dict(op="get_meta", id="Op/abc", via=other), refill,
           dict(op="save", slot=0), dict(op="save", slot=1),
           dict(op="get_meta", id="Op/abc", via=other), dict(op="get", id="Op/abc", via=other),
           dict(op="get", id="Op/abc", via=v), dict(op="get", id=rid, via=v), dict(op="get_meta", id=rid, via=other),
           dict(op="get", id="Op/never-saved", via=v), dict(op="get", id="Op/never-saved", via=v)]
    return dict(kind=kind, prefix=prefix, ops=ops, stream="early")


def long_case(kind, prefix, n1, n2, model=True):
    """a LONG history: recordings A (created), B (hand-made id) are saved, then n1 other recordings, A and B are fetched,
    C is saved and B saved again with new content, then n2 more recordings; at the end A, B, C, the first and the last of
    the others are fetched (full and metadata-only) and ids that were never saved are asked for"""
    fmt = "%s/20200227/%032x" if kind == "s3" else "%s/%032x"
    a, b, c = fmt % ("Op", 1), "Op/abc", fmt % ("OpX", n1 + 2)
    fill_a = dict(op="fill", slot=0, reset=False, meta=[["m", pv.s("v")], ["duration", pv.i(2)]],
                  data=[["k", pv.i(1)], ["input: x", pv.lst([pv.s("a"), pv.i(2), pv.dct([("n", pv.none())])])]])
    fill_b = dict(op="fill", slot=1, reset=False, data=[["k2", pv.dct([("n", pv.i(3))])]], meta=[])
    fill_c = dict(op="fill", slot=2, reset=False, data=[["k", pv.tup([pv.i(1), pv.s("\u00e9")])]], meta=[["m", pv.b(True)]])
    refill_b = dict(op="fill", slot=1, reset=True, data=[["k", pv.i(7)]], meta=[["m", pv.s("w")]])
    ops = [dict(op="create", slot=0, cat="Op"), fill_a, dict(op="save", slot=0),
           dict(op="mk", slot=1, id=b), fill_b, dict(op="save", slot=1),
           dict(op="bulk", n=n1, cat="Bk"),
           dict(op="get", id=a), dict(op="get_meta", id=b),
           dict(op="create", slot=2, cat="OpX"), fill_c, dict(op="save", slot=2),
           refill_b, dict(op="save", slot=1),
           dict(op="bulk", n=n2, cat="Bk"),
           dict(op="get", id=a), dict(op="get_meta", id=a), dict(op="get", id=b), dict(op="get_meta", id=b),
           dict(op="get", id=c), dict(op="get", id=bulk_id(kind, "Bk", 2)), dict(op="get_meta", id=bulk_id(kind, "Bk", n1 + 1)),
           dict(op="get", id=bulk_id(kind, "Bk", n1 + n2 + 2)),
           dict(op="get", id="Op/never-saved"), dict(op="get_meta", id=bulk_id(kind, "Bk", n1 + n2 + 3))]
    return dict(kind=kind, prefix=prefix, ops=ops, stream="long", names="count", model=model)


# ---- deeply nested values ------------------------------------------------------------------------------------------
# "any serializable values": nesting has no bound in the property (a linked chain of nodes, an expression / route tree, a
# recursive-descent result); jsonpickle follows a few hundred levels on the unchanged tree.  Chains of 48-100 containers
# (every plain container one level of the encoder, every object instance two), as data and as metadata, on all three
# cassettes.  Implementation + direct predicate only (the model's fuel-free structural recursion could follow, but literals
# of that depth cost more elaboration time than the quick tier has).
def deep_chain(shape, depth, leaf):
    """a value nested `depth` containers deep around `leaf` (with siblings on the way down: values next to the chain)"""
    v = leaf
    for n in range(depth):
        kind = shape if shape != "mixed" else ["list", "dict", "obj", "tuple"][n % 4]
        if kind == "list":
            v = pv.lst([pv.i(n), v])
        elif kind == "tuple":
            v = pv.tup([v, pv.s("t%d" % n)])
        elif kind == "dict":
            v = pv.dct([("value", pv.i(n)), ("next", v)])
        else:
            v = {"t": "obj", "cls": "lib.pyvals.Pt", "v": [["x", pv.i(n)], ["y", v]]}
    return v


DEEP = [("list", 48), ("list", 55), ("list", 100), ("dict", 49), ("dict", 60), ("dict", 96), ("obj", 24), ("obj", 30),
        ("obj", 45), ("mixed", 40), ("mixed", 64), ("tuple", 52)]


def deep_case(kind, prefix, shape, depth, where, n):
    fmt = "%s/20200227/%032x" if kind == "s3" else "%s/%032x"
    leaf = [pv.i(5), pv.s("leaf"), pv.lst([pv.i(1), pv.none()]), pv.dct([("a", pv.b(True))])][n % 4]
    deep = deep_chain(shape, depth, leaf)
    shallow = deep_chain(shape, 3, leaf)
    data = [["k", deep if where in ("data", "both") else shallow], ["input: x", pv.i(n)]]
    meta = [["m", deep if where in ("meta", "both") else shallow], ["duration", pv.i(2)]]
    rid = fmt % ("Op", 1)
    other = dict(op="fill", slot=1, reset=False, data=[["k", pv.i(7)]], meta=[])
    ops = [dict(op="create", slot=0, cat="Op"), dict(op="fill", slot=0, reset=False, data=data, meta=meta),
           dict(op="save", slot=0), dict(op="create", slot=1, cat="OpX"), other, dict(op="save", slot=1),
           dict(op="get", id=rid), dict(op="get_meta", id=rid)]
    return dict(kind=kind, prefix=prefix, ops=ops, stream="deep", model=False, depth=depth, shape=shape)


def deep_cases(tier):
    out = []
    n = 0
    for kind in ("mem", "file", "s3"):
        for j, (shape, depth) in enumerate(DEEP):
            wheres = ["data", "meta", "both"] if tier != "quick" else [["data", "meta", "both"][(j + n) % 3]]
            if tier == "quick" and depth >= 55 and shape in ("list", "dict"):
                wheres = ["data", "meta"]
            for where in wheres:
                n += 1
                out.append(deep_case(kind, PREFIXES[n % len(PREFIXES)], shape, depth, where, n))
    return out


# runs of saves (n1, n2, with the model?) between the save of a recording and its fetch, per cassette kind and tier: "any
# sequence of saves of other recordings before and after" has no bound; the probes pass 1024 stored recordings on every
# cassette.  The models' stores are plain lists (the S3 bucket model pays ~n^2 comparisons of keys that share a 40 character
# prefix: about a minute for 1100 recordings), so in the quick tier the longest S3 history is implementation + direct
# predicate only and a shorter one runs against the model; the thorough tier runs the long one against the model too.
LONG = {"quick": {"mem": [(550, 560, True)], "file": [(550, 560, True)], "s3": [(550, 560, False), (150, 160, True)]},
        "thorough": {"mem": [(550, 560, True), (30, 2100, True), (4200, 10, False)],
                     "file": [(550, 560, True), (1300, 40, False)],
                     "s3": [(550, 560, True), (150, 160, True), (1300, 40, False)]}}


EARLY_KEYS = ["K", "0", "\"q", "", "Zeta", "-x", "A b", "[k]"]     # data keys that sort BEFORE the S3 document's '_metadata'


def early_key_shared_cases():
    """shared sub-objects (plain lists / dicts, referenced twice inside the metadata, or by the metadata and the data) in a
    recording whose data keys sort before, after and on both sides of '_metadata' (upper case, digit, quote, punctuation,
    empty key; the recorder's own 'input: ..' keys sort after): the position of the metadata inside whatever document a
    cassette writes must not matter to the metadata fetched on its own.  Outside the F07c region (no object instances)."""
    r0, r1 = {"t": "ref", "n": 0}, {"t": "ref", "n": 1}
    shapes = [
        # the metadata references one of its own lists twice; the early data key holds a list of its own
        (lambda key: [[key, pv.lst([pv.i(1), pv.i(2)])], ["k", pv.i(5)]],
         [["rows", r0], ["same_rows", r0], ["tag", pv.s("v1")]], [pv.lst([pv.i(1), pv.i(2), pv.i(3)])]),
        # the metadata shares a list with the data recorded under the early key
        (lambda key: [[key, r0]], [["ids", r0], ["count", pv.i(3)]], [pv.lst([pv.s("a"), pv.s("b"), pv.s("c")])]),
        # two shared sub-objects, a dict and a list holding it; data on both sides of '_metadata'
        (lambda key: [[key, pv.lst([r0, pv.lst([])])], ["input: x", r1], ["k2", pv.dct([("z", pv.lst([pv.i(0)]))])]],
         [["first", r1], ["second", r1], ["d", r0]],
         [pv.dct([("a", pv.i(1))]), pv.lst([r0, pv.i(2)])]),
        # the same list three times in the metadata only, a dict of lists under the early key
        (lambda key: [[key, pv.dct([("p", pv.lst([pv.i(1)])), ("q", pv.lst([pv.i(2)]))])]],
         [["m", pv.lst([r0, r0])], ["n", r0]], [pv.lst([pv.s("x")])]),
    ]
    out = []
    n = 0
    for key in EARLY_KEYS + ["k"]:
        for data_of, meta, pool in shapes:
            for kind in ("s3", "file", "mem"):
                prefix = ["", "p", "a/b"][n % 3]
                n += 1
                rid = ("Op/20200227/%032x" if kind == "s3" else "Op/%032x") % 1
                out.append(dict(kind=kind, prefix=prefix, stream="shared", ops=[
                    dict(op="create", slot=0, cat="Op"),
                    dict(op="fill", slot=0, data=data_of(key), meta=meta, pool=pool),
                    dict(op="save", slot=0), dict(op="get_meta", id=rid), dict(op="get", id=rid),
                    dict(op="scribble_fetched", n=n), dict(op="get_meta", id=rid)]))
    return out


def generate(rng, tier):
    n = 150 if tier == "quick" else 1500
    cases = []
    kinds = ["mem", "file", "s3"]
    for i in range(n):
        stream = "main"
        if i % 20 == 11:
            stream = "unser"
        cases.append(gen_case(rng, tier, stream, kinds[i % 3]))
    for i in range(12 if tier == "quick" else 60):      # probe: F07b reserved data key (all three kinds; only S3 loses it)
        cases.append(gen_case(rng, tier, "reserved", kinds[i % 3]))
    for i in range(60 if tier == "quick" else 900):     # probe: shared sub-objects
        cases.append(gen_case(rng, tier, "shared", kinds[i % 3]))
    for k in kinds:                                     # minimal known F07c shape: [P(x=I), L, L] with L = [I, P]
        pool = [pv.lst([pv.i(1)]), {"t": "obj", "cls": "lib.pyvals.Pt", "v": [["x", {"t": "ref", "n": 0}]]},
                pv.lst([{"t": "ref", "n": 0}, {"t": "ref", "n": 1}])]
        val = pv.lst([{"t": "ref", "n": 1}, {"t": "ref", "n": 2}, {"t": "ref", "n": 2}])
        cases.append(dict(kind=k, prefix="p", stream="shared", ops=[
            dict(op="mk", slot=0, id="Op/20200227/shared"), dict(op="fill", slot=0, data=[["k", val]], meta=[], pool=pool),
            dict(op="save", slot=0), dict(op="get", id="Op/20200227/shared")]))
    for k in kinds:                                     # minimised F07c witness: {'a': P(x=[1]), 'b': L, 'c': L}, L = [7]
        pool = [pv.lst([pv.i(7)])]
        cases.append(dict(kind=k, prefix="", stream="shared", ops=[
            dict(op="create", slot=0, cat="Op"),
            dict(op="fill", slot=0, meta=[], pool=pool,
                 data=[["a", {"t": "obj", "cls": "lib.pyvals.Pt", "v": [["x", pv.lst([pv.i(1)])]]}],
                       ["b", {"t": "ref", "n": 0}], ["c", {"t": "ref", "n": 0}]]),
            dict(op="save", slot=0),
            dict(op="get", id=("Op/20200227/%032x" if k == "s3" else "Op/%032x") % 1)]))
    for i in range(6):                                  # file-path collisions of hand-made ids (observation)
        cases.append(gen_case(rng, tier, "collision", kinds[i % 3]))
    cases += early_key_shared_cases()                   # round 7 (deterministic; after every draw of the streams above)
    # histories in which an id is asked for BEFORE it is saved, through the saving cassette object or a second one over
    # the same store: deterministic probes (always run) + a random stream with its own generator (the streams above draw
    # the same cases as before this one existed)
    for k in kinds:
        for prefix, v in (("", "writer"), ("a/b", "reader")):
            cases.append(fixed_early(k, prefix, v))
    rng_early = __import__("random").Random(rng.getrandbits(64))
    for i in range(36 if tier == "quick" else 360):
        cases.append(gen_case(rng_early, tier, "early", ["s3", "file", "s3", "mem"][i % 4]))
    cases += deep_cases(tier)                            # values / metadata nested 48-100 containers deep (deterministic)
    # long histories: 1000+ saves of other recordings between the save of a recording and its fetch (deterministic probes,
    # spread over the case list so that they land in different shards of the model run)
    longs = [long_case(k, ["", "p", "a/b"][j % 3], n1, n2, m) for k in kinds for j, (n1, n2, m) in enumerate(LONG[tier][k])]
    step = max(1, len(cases) // (len(longs) + 1))
    for j, c in enumerate(longs):
        cases.insert(min(len(cases), (j + 1) * step + j), c)
    return cases


# ---- mirror of the history (harness side, no model) ---------------------------------------------------
def walk(case, obs):
    """yields (op index, op, obs, expected store: id -> dict(data, meta, pool, raw fill)) after mirroring the op"""
    slots = {}
    expected = {}
    for n, (op, o) in enumerate(zip(case["ops"], obs["ops"])):
        k = op["op"]
        if k in ("create", "mk"):
            if "id" in o:
                slots[op["slot"]] = dict(id=o["id"], data=[], meta=[], pools=[])
        elif k == "fill" and op["slot"] in slots and o["res"] == "ok":
            s = slots[op["slot"]]
            pool = op.get("pool", [])
            if op.get("reset"):
                s["data"], s["meta"] = [], []
            s["shared"] = bool(pool)
            for key, v in op["data"]:
                s["data"] = [kv for kv in s["data"] if kv[0] != key] + [[key, expand(v, pool)]]
            for key, v in op["meta"]:
                s["meta"] = [kv for kv in s["meta"] if kv[0] != key] + [[key, expand(v, pool)]]
            s["fill"] = op
        elif k == "bulk" and o["res"] == "ok":
            for i, rid in enumerate(bulk_ids(case, op, o)):
                expected[rid] = dict(id=rid, data=[["k", pv.i(i)]], meta=[], pools=[])
        elif k == "scribble_saved" and op["slot"] in slots:
            slots[op["slot"]]["dirty"] = True
        elif k == "save" and op["slot"] in slots and o["res"] == "ok":
            s = slots[op["slot"]]
            expected[s["id"]] = copy.deepcopy(s)
        yield n, op, o, slots, expected


def bulk_ids(case, op, o):
    """ids of the recordings a bulk op created: the fake uuid counts, so they are known unless the driver says otherwise"""
    if "ids" in o:
        return o["ids"]
    return [bulk_id(case["kind"], op["cat"], o["first"] + i) for i in range(o.get("n_ok", 0))]


def bulk_id(kind, cat, n):
    """id of the n-th recording of the history when it is created by a bulk op: the fake uuid text with the low digit first
    (like uuid1, whose hex text starts with its fastest moving field; ids that differ early keep the model run cheap)"""
    return ("%s/20200227/%s" if kind == "s3" else "%s/%s") % (cat, ("%032x" % n)[::-1])


def unser_in(items):
    return any(contains(v, lambda x: x["t"] == "unser") for _, v in items)


def canon_items(items):
    return sorted(([k, pv.canon_json(v)] for k, v in items), key=lambda kv: kv[0])


def f07c_region(exp):
    """known-finding region F07c: some sub-object is referenced more than once AND an object instance holds a list in
    its state (python 3.11+: the state is restored twice and its lists are numbered twice by the unpickler)"""
    op = exp.get("fill") or {}
    pool = op.get("pool", [])
    if not pool:
        return False
    acc = {}
    for _, v in op["data"] + op["meta"]:
        count_refs(v, acc)
    for p in pool:
        count_refs(p, acc)
    shared = any(c >= 2 for c in acc.values())
    return shared and any(list_in_state(v) for _, v in exp["data"] + exp["meta"])


def saves_since(case, obs, rid, upto):
    """how many saves of other recordings lie between the last save of `rid` and op #upto (for the message only)"""
    count, slot_id = 0, {}
    for n, (op, o) in enumerate(zip(case["ops"][:upto], obs["ops"])):
        if op["op"] in ("create", "mk") and "id" in o:
            slot_id[op["slot"]] = o["id"]
        elif op["op"] == "save" and o["res"] == "ok":
            count = 0 if slot_id.get(op["slot"]) == rid else count + 1
        elif op["op"] == "bulk":
            count += o.get("n_ok", 0)
    return count


def direct(case, obs):
    if "driver_exception" in obs:
        return [("driver", obs["driver_exception"])]
    fails = []
    kind = case["kind"]
    collision = case.get("stream") == "collision"
    for n, op, o, slots, expected in walk(case, obs):
        k = op["op"]
        where = "op #%d %s on the %s cassette%s" % (n, k, kind, " (asked through a second cassette object over the same store)"
                                                   if op.get("via") == "reader" and kind != "mem" else "")
        if o["res"].startswith("other:") and k not in ("get", "get_meta"):
            fails.append(("unexpected-exception", "%s raised %s: %s" % (where, o["res"], o.get("msg"))))
            continue
        if k == "save" and op["slot"] in slots:
            s = slots[op["slot"]]
            bad = unser_in(s["data"]) or unser_in(s["meta"])
            if o["res"] != ("EncodeError" if bad else "ok"):
                fails.append(("save-outcome", "%s: outcome %s (%s)" % (where, o["res"], o.get("msg"))))
        if k == "bulk" and (o["res"] != "ok" or o.get("n_ok") != op["n"]):
            fails.append(("save-outcome", "%s: a run of %d saves of small recordings ended with %s after %s saves (%s)" %
                          (where, op["n"], o["res"], o.get("n_ok"), o.get("msg"))))
        if k not in ("get", "get_meta"):
            continue
        rid = op["id"]
        exp = expected.get(rid)
        if collision and kind == "file":
            continue     # hand-made ids whose file names collide: outside the created-id domain (C07_path_collision_refuted)
        if exp is None:
            if o["res"].startswith("other:"):
                fails.append(("unexpected-exception", "%s raised %s: %s" % (where, o["res"], o.get("msg"))))
            elif o["res"] != "NoSuchRecording":
                fails.append(("unknown-id-no-signal", "%s: id %r was never saved, outcome %s instead of NoSuchRecording"
                              % (where, rid, o["res"])))
            continue
        reserved = kind == "s3" and any(key == META for key, _ in exp["data"])
        shared = exp.get("shared") and f07c_region(exp)

        def sig(s):
            if reserved:
                return "F07b-s3-reserved-key"
            if shared:
                return "F07c-shared-ref-after-object-state"
            return s
        if o["res"] != "ok":
            later = saves_since(case, obs, rid, n)
            fails.append((sig("saved-recording-not-fetchable"), "%s: id %r was saved%s, fetch raised %s" % (
                where, rid, " (%d saves of other recordings since)" % later if later > 20 else "", o["res"])))
            continue
        want_meta = pv.canon_json({"t": "dict", "v": exp["meta"]})
        if k == "get_meta":
            got = pv.canon_json(o["val"])
            if got != want_meta:
                fails.append((sig("metadata-only-fetch-differs"), "%s: id %r metadata %s, saved %s" % (
                    where, rid, json.dumps(got)[:300], json.dumps(want_meta)[:300])))
            continue
        r = o["rec"]
        if r["id"] != rid:
            fails.append((sig("id-differs"), "%s: fetched id %r for %r" % (where, r["id"], rid)))
        gk, wk = sorted(key for key, _ in r["data"]), sorted(key for key, _ in exp["data"])
        if gk != wk:
            fails.append((sig("keys-differ"), "%s: id %r keys %r, saved %r" % (where, rid, gk, wk)))
        else:
            g, w = canon_items(r["data"]), canon_items(exp["data"])
            for (key, a), (_, b) in zip(g, w):
                if a != b:
                    fails.append((sig("data-differs"), "%s: id %r key %r fetched %s, saved %s" % (
                        where, rid, key, json.dumps(a)[:300], json.dumps(b)[:300])))
                    break
        got = pv.canon_json(r["meta"])
        if got != want_meta:
            fails.append((sig("metadata-differs"), "%s: id %r metadata %s, saved %s" % (
                where, rid, json.dumps(got)[:300], json.dumps(want_meta)[:300])))
        if r["copy_differs"] and not shared:
            fails.append(("get_data-copy-differs", "%s: get_data differs from the stored value for keys %r" % (where, r["copy_differs"])))
    return fails


# ---- Gallina -------------------------------------------------------------------------------------------
EXN = {"AssertionError", "NoSuchRecording", "EncodeError", "DecodeError", "ShapeError"}


def coq_ok(j):
    t = j["t"]
    if t == "bytes":
        return pv.simple_bytes_ok(j["v"])
    if t == "set":
        return len(j["v"]) <= 1 and all(coq_ok(x) for x in j["v"])
    if t in ("list", "tuple"):
        return all(coq_ok(x) for x in j["v"])
    if t in ("dict", "obj"):
        return all(coq_ok(v) for _, v in j["v"])
    return t not in ("other", "ref")


def gitems(items):
    return glist([gpair(gstr(k), pv.to_pyval(v)) for k, v in items])


class Names(object):
    """The stored names of a case are listed again after every call: each distinct text is bound once per case
    (`let n3 := U "..." in`) and referred to by name (parsing string literals dominates the elaboration of a shard)."""
    def __init__(self):
        self.names = {}

    def __call__(self, text):
        if text not in self.names:
            self.names[text] = "n%d" % len(self.names)
        return self.names[text]

    def wrap(self, term):
        lets = "".join("let %s := %s in " % (n, gstr(k)) for k, n in self.names.items())
        return "(%s%s)" % (lets, term) if lets else term


def gnames(o, nm=gstr):
    if "names_n" in o:
        return "(NCount %d%%N)" % o["names_n"]
    return "(NAll %s)" % glist([nm(x) for x in o["names"]])


def to_gallina(case, obs):
    if "driver_exception" in obs:
        return "Case KMem [(PNoop, BUnknown, NAll [])]"
    if case.get("stream") == "shared":
        return None                       # sharing is not expressible in pyval (tree shaped)
    if case.get("model") is False:
        return None                       # (the longest histories of the quick tier: implementation + direct predicate only)
    kind = {"mem": "KMem", "file": "KFile", "s3": "(KS3 %s)" % gstr(case.get("prefix", ""))}[case["kind"]]
    terms = []
    nm = Names()
    for n, op, o, slots, expected in walk(case, obs):
        k = op["op"]
        res = o["res"]
        if res != "ok" and res not in EXN:
            ob = "BUnknown"
        elif res != "ok":
            ob = "(BRaises %s)" % res
        else:
            ob = "BOk"
        t = "PNoop"
        if k == "create":
            if "id" in o:
                uu = o["id"].rsplit("/", 1)[1]
                t = "(PCreate %s %s %s)" % (gstr(op["cat"]), gstr("20200227"), gstr(uu))
                ob = "(BId %s)" % gstr(o["id"])
        elif k == "save" and op["slot"] in slots:
            s = slots[op["slot"]]
            if not all(coq_ok(v) for _, v in s["data"] + s["meta"]):
                return None
            t = "(PSave (Rec %s %s %s %s))" % (gstr(s["id"]), gbool(bool(o.get("closed_before"))), gitems(s["data"]),
                                              gitems(s["meta"]))
        elif k == "bulk" and res == "ok":
            t = "(PBulk %s)" % glist(["(Rec %s false %s [])" % (gstr(rid), gitems([["k", pv.i(i)]]))
                                      for i, rid in enumerate(bulk_ids(case, op, o))])
        elif k == "get":
            t = "(PGet %s)" % gstr(op["id"])
            if res == "ok":
                r = o["rec"]
                if not all(coq_ok(v) for _, v in r["data"]) or not coq_ok(r["meta"]):
                    return None
                ob = "(BRec (VStr %s) (VDict %s) %s)" % (gstr(r["id"]), gitems(r["data"]), pv.to_pyval(r["meta"]))
        elif k == "get_meta":
            t = "(PGetMeta %s)" % gstr(op["id"])
            if res == "ok":
                if not coq_ok(o["val"]):
                    return None
                ob = "(BVal %s)" % pv.to_pyval(o["val"])
        terms.append("(%s, %s, %s)" % (t, ob, gnames(o, nm)))
    return nm.wrap("Case %s %s" % (kind, glist(terms)))


def explain(case, obs):
    return "model_obs (%s)" % to_gallina(case, obs)


def features(case):
    f = {"kind:" + case["kind"], "stream:" + case.get("stream", "?")}
    if case["kind"] == "s3":
        f.add("s3-prefix:" + repr(case.get("prefix", "")))
    asked = set()
    between = 0
    for op in case["ops"]:
        f.add("op:" + op["op"])
        if op["op"] == "bulk":
            between += op["n"]
        if op["op"] in ("get", "get_meta"):
            asked.add(op["id"])
            if op.get("via") == "reader":
                f.add("asked through a second cassette object")
        if op["op"] == "mk" and op["id"] in asked:
            f.add("id asked for before it was saved")
        if op["op"] == "create" and any(a.startswith(op["cat"] + "/") for a in asked):
            f.add("id asked for before it was saved")
        if op["op"] == "fill":
            if op.get("reset"):
                f.add("re-save with new content")
            for key, v in op["data"] + op["meta"]:
                f.add("value:" + v["t"])
                if any(ord(c) > 127 for c in key):
                    f.add("key:non-ascii")
                if any(c in key for c in '"\\{}[]:,'):
                    f.add("key:json-metacharacter")
        if op["op"] == "mk":
            f.add("id:hand-made")
        if op["op"] == "create":
            f.add("id:created")
    if case.get("depth"):
        f.add("nesting depth: %s (%s)" % ("<50" if case["depth"] < 50 else "50-69" if case["depth"] < 70 else "70+", case["shape"]))
    if between:
        f.add("saves of other recordings between a save and its fetch: %s" % ("1000+" if between > 1000 else "100+"))
    return f


def nontrivial(case):
    ops = case["ops"]
    return any(o["op"] == "fill" and o["data"] for o in ops) and any(o["op"] == "get" for o in ops)


def shrink_candidates(case):
    ops = case["ops"]
    if case.get("stream") == "long":
        # the ids of a long history are positional (fake uuid counter): only the fetches are dropped, nothing is renumbered
        for i in range(len(ops) - 1, -1, -1):
            if ops[i]["op"] in ("get", "get_meta"):
                yield dict(case, ops=ops[:i] + ops[i + 1:])
        return
    slots = sorted(set(o["slot"] for o in ops if "slot" in o))
    if len(slots) > 1:
        for sl in slots:      # drop a whole recording (its create / fill / save / scribble ops)
            yield dict(case, ops=[o for o in ops if o.get("slot") != sl])
    for i in range(len(ops) - 1, -1, -1):
        if ops[i]["op"] in ("get", "get_meta", "scribble_fetched", "scribble_saved"):
            yield dict(case, ops=ops[:i] + ops[i + 1:])
    for i in range(len(ops) - 1, -1, -1):
        if ops[i]["op"] == "fill" and not ops[i].get("pool"):
            op = ops[i]
            for j in range(len(op["data"])):
                yield dict(case, ops=ops[:i] + [dict(op, data=op["data"][:j] + op["data"][j + 1:])] + ops[i + 1:])
            for j in range(len(op["meta"])):
                yield dict(case, ops=ops[:i] + [dict(op, meta=op["meta"][:j] + op["meta"][j + 1:])] + ops[i + 1:])


def search_harder(rng, bad_cases):
    out = []
    for k in ("mem", "file", "s3"):
        out += [gen_case(rng, "thorough", "main", k) for _ in range(60)]
    return out


MANIFEST = dict(
    design_ref='6/C07',
    text="Coq theorems for the three cassette models (in-memory ordered id->text map, file-based directory with path id = replace('/','_') + '.json', S3 full+metadata objects over the bucket model): for ANY prior store state, after save r and any later saves of other ids, get returns r's id, key set, data and metadata up to canonical dict order, and the metadata-only fetch agrees, for all key texts and all values of the serializer's faithful domain (rec_wf) whose floats carry float.__repr__ texts and whose bytes are byte lists (rec_leaves_ok); file paths are injective on created ids (collision of hand-made ids refuted with a witness); a never-saved id answers NoSuchRecording on all three; on S3 the data key '_metadata' is lost (refuted with a witness, known finding F07b). Model tied to /repo on every run by histories of create/save/re-save/get/get_metadata (and client scribbles on handed-out objects; ids asked for before they are saved and afterwards, also through a second cassette object over the same store; long histories with 1100+ saves of other recordings between the save of a recording and its fetch) ; values and metadata nested 48-100 containers deep, implementation side only) on the real cassettes; direct predicate: fetched == saved, metadata-only fetch agrees, unknown id raises NoSuchRecording. Shared sub-objects are covered by the direct predicate only (pyval is tree shaped); one shape is a known finding (F07c).",
    note='Trusted: Coq kernel + vm_compute; hand-written models of jsonpickle 0.9.3 (flatten/restore) and of the three cassettes; json.loads o json.dumps = id on well-formed trees, zlib and quopri round trips are premises of the oracle-parametric theorems and theorems for the concrete parser / simple quoted-printable codec / identity zlib (C07_roundtrip_*_concrete: no oracle premise); fake bucket; scratch directory. Known findings F07b (S3 reserved key) and F07c (py/id numbering after an object state) are reported as KNOWN-FINDING.',
    technique='Coq proof (serializer round trip + store algebra) + history correspondence by vm_compute + direct fetched==saved predicate',
)
