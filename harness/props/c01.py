"""C01 - replay on unchanged code reproduces the recorded run."""
import random

from lib import recdsl as rd
from lib import pyvals as pv
from props.rec_common import *  # noqa: F401,F403
from props.c05 import outermost_completed

ID = "C01"
LOG_LEVEL_INVARIANT = True      # (harness/vp.py: a sample of the cases again with logging at DEBUG; same observables)
RUN_MODULE = "RunC01"
SHARD = 40
RULE = ("one case = a deterministic, functional program recorded through a real TapeRecorder into one of the three real cassettes "
        "(in-memory, file-based, S3 over the fake bucket) and replayed 1-2 times on the unchanged program: any number and order "
        "of input and output calls (up to 14 per alias), the same alias with different arguments, static / instance / property "
        "inputs, resolvers, capture subsets, fallbacks, wrap data handlers, nested interceptions, try/except around recorded "
        "exceptions, values from the faithful domain (tuples, bytes, nested containers, objects, big ints); plus a probe stream "
        "that always runs (implementation only): hand-written operations that change what an intercepted input returned IN "
        "PLACE after the capture, with copy-on-interception on, and whose later outputs and result depend on it - every "
        "container shape (tuple of list/dict/object/set, tuple in tuple, list, dict, object, nested mixes) x instance/static "
        "input x no / pass-through / wrapping data handler x the three cassettes, two inputs changed alternately, and a "
        "never-sampled class (rate 0) whose operation enforces sampling after the capture; a fallback-priority stream that "
        "always runs (a renamed input that keeps its old alias as fallback while the old input is still called with equal "
        "arguments: main and fallback key both recorded, old input before/after, fallback key sorting before/after the main "
        "key, list/function fallbacks, three cassettes); cross-process cases (kind xproc: recorded by one interpreter into a "
        "file-based cassette, each replay by another interpreter with its own PYTHONHASHSEED; inputs with two or three "
        "captured arguments given by position AND name called with the same values in different positions, an input called with "
        "captured arguments of several KB that differ only at the end, plus programs of the main stream); a shared-value stream "
        "(implementation only: one plain list / dict reachable twice inside an intercepted value, read twice, sent, returned; "
        "copy-on-interception on / off, three cassettes); output data handlers preparing an int / None; non-trivial = at "
        "least two interceptions; distinct = distinct (program, cassette)")
ASSUMPTIONS = ["worker threads are modelled at start/join granularity (Spawn: a thread started and joined by the operation's own code); "
               "true concurrency is not (the per-alias output counter is a non-atomic read-modify-write, runtime behaviour no "
               "Gallina function exhibits); the Coq theorems are stated for thread-free programs, threaded programs are covered "
               "by the correspondence and the direct predicate",
               "inputs are functions of alias and captured arguments (generated programs are functional by construction)",
               "intercepted objects are not mutated after capture unless copy-on-interception is on: the main stream's values are "
               "immutable (the model has no mutable values); the permitted side - mutation after capture with copy-on-interception "
               "on - is covered by the direct predicate on the mutation probe stream only",
               "values are tree-shaped; a value referenced twice inside one recording together with an earlier plain object "
               "holding a list/dict hits the serializer's py/id defect (known finding F07c) and is kept out of the main stream"]
THEOREMS = ["C01_nested_not_intercepted", "C01_simulation", "C01_replay_reproduces", "C01_replay_reproduces_run",
            "C01_nonfunctional_refuted"]

W = dict(rd.DEFAULT_W, spawn=0.6, spawn_in_body=False, fault=0.0, unser=0.0, discard=0.0, force=0.3, interrupt=0.0, raise_=0.2, enable=0.0, prep_discards=0.0,
         playdata=0.0, recdata=0.4, missing_opts=0.1, fallbacks=0.2, handler=0.25, nested=0.3, unsized_handlers=0.3)
PRM = dict(rate=[1, 1], ignore=False, skipped=False, copy=False)


def strip_vars(c):
    """Replace every bound-value reference inside a body by a constant (the body then ignores its arguments)."""
    for n in rd.walk(c):
        if n["k"] == "ret" and "var" in n["e"]:
            n["e"] = {"lit": pv.i(7)}
        for key in ("args",):
            if key in n:
                n[key] = [({"lit": pv.i(3)} if "var" in e else e) for e in n[key]]
        if "kwargs" in n:
            n["kwargs"] = [[k, ({"lit": pv.i(3)} if "var" in e else e)] for k, e in n["kwargs"]]
        if n["k"] == "recdata" and "var" in n["e"]:
            n["e"] = {"lit": pv.i(3)}


def functionalise(rng, body, table):
    """Make every input a function of (alias, captured arguments): all OUTERMOST call sites of one alias share one
    configuration and one body (the first site's); the body ignores its arguments unless every argument is captured.
    Input sites nested inside a body are never intercepted; they get private aliases so that they share nothing."""
    uniq = [0]

    def privatise(c):
        for m in rd.walk(c):
            if m["k"] == "in":
                uniq[0] += 1
                m["cfg"]["alias"] = "inner%d %s" % (uniq[0], m["cfg"]["alias"].replace("{", "(").replace("}", ")"))
                m["cfg"]["resolver"] = {"kind": "none"}

    def top(c):
        """outermost sites: follow next / try branches, not bodies"""
        while True:
            if c["k"] in ("in", "out"):
                yield c
            if c["k"] == "try":
                for x in top(c["c"]):
                    yield x
                for x in top(c["h"]):
                    yield x
                return
            if c["k"] == "spawn":
                for x in top(c["c"]):     # a worker thread's calls are intercepted like the operation's own
                    yield x
            if "next" not in c:
                return
            c = c["next"]

    for n in list(top(body)):
        privatise(n["body"])
        if n["k"] == "in":
            cf = n["cfg"]
            al = cf["alias"]
            if al not in table:
                if cf["handler"] in ("prep_raises", "restore_raises"):
                    cf["handler"] = "wrap"
                if cf["cap"] is not None or cf["resolver"]["kind"] != "none":
                    strip_vars(n["body"])
                table[al] = (rd.clean(cf), rd.clean(n["body"]))
            else:
                n["cfg"], n["body"] = rd.clean(table[al][0]), rd.clean(table[al][1])
                if n["cfg"].get("property"):
                    n["args"], n["kwargs"] = [], []
        elif n["cfg"]["handler"] == "raises":
            n["cfg"]["handler"] = "wrap"
    for m in rd.walk(body):
        if m["k"] == "out" and m["cfg"]["handler"] == "raises":
            m["cfg"]["handler"] = "wrap"


def scrub_terminals(body, table, rng):
    pass


def many_outputs(rng):
    """An operation that calls one output alias 10-14 times (ordinals with two digits) among other calls."""
    n = rng.randrange(10, 15)
    c = {"k": "ret", "e": {"lit": pv.s("done")}}
    for i in reversed(range(n)):
        c = {"k": "out", "cfg": dict(alias="send", static=bool(i % 2), handler="none", fail=True, default=pv.none()),
             "body": {"k": "ret", "e": {"lit": pv.i(100 + i)}}, "args": [{"lit": pv.i(i)}], "kwargs": [], "next": c}
    return dict(cls="OpA", classlevel=False, extractor={"kind": "none"}, body=c)


def capture_subsets(rng, static=None, pos=None, byname=None):
    """The same input alias called several times with arguments that differ ONLY at one captured position (every position
    incl. 0 for static functions, by position and by name), each call answering differently: distinct calls, distinct keys."""
    static = rng.random() < 0.5 if static is None else static
    lo = 0 if static else 1            # (position 0 of an instance method is self)
    pos = rng.choice([0, 1, 2]) if pos is None else pos
    byname = rng.random() < 0.3 if byname is None else byname
    cap = [[None, "k"]] if byname else [[lo + pos, rng.choice([None, "x"])]]
    if rng.random() < 0.4:
        cap.append([lo + (pos + 1) % 3, None])
    cf = dict(alias=rng.choice(["load", "db.fetch"]), resolver={"kind": "none"}, cap=cap, static=static, property=False,
              handler=rng.choice(["none", "none", "wrap"]), prep_discards=False, run_missing=False, vmiss={"kind": "none"},
              fallbacks={"kind": "none"})
    n = rng.randrange(2, 5)
    c = {"k": "ret", "e": {"var": n - 1}}
    vals = rng.sample([pv.i(0), pv.i(1), pv.s("a"), pv.s(""), pv.none(), pv.b(False), pv.lst([pv.i(1)]), pv.tup([])], n)
    for i in reversed(range(n)):
        args = [pv.s("same"), pv.s("same"), pv.s("same")]
        kwargs = []
        if byname:
            kwargs = [["k", {"lit": vals[i]}]]
        else:
            args[pos] = vals[i]
        c = {"k": "in", "cfg": dict(cf), "body": {"k": "ret", "e": {"lit": pv.i(500 + i)}},
             "args": [{"lit": a} for a in args], "kwargs": kwargs, "next": c}
    return dict(cls="OpA", classlevel=False, extractor={"kind": "none"}, body=c)


TWINS = [
    [pv.tup([pv.i(1), pv.i(2)]), pv.lst([pv.i(1), pv.i(2)])],
    [{"t": "obj", "cls": "lib.pyvals.Pt", "v": [["x", pv.i(7)]]}, {"t": "obj", "cls": "lib.pyvals.Qt", "v": [["x", pv.i(7)]]}],
    [pv.tup([]), pv.lst([])],
    [{"t": "bytes", "v": [97]}, pv.s("a")],
    [pv.dct([("k", pv.tup([pv.i(1)]))]), pv.dct([("k", pv.lst([pv.i(1)]))])],
    [pv.i(1), pv.b(True), {"t": "float", "r": "1.0"}],
    [pv.lst([pv.none()]), pv.tup([pv.none()])],
]


def type_twins(rng):
    """One alias called with arguments that are equal up to their type; the input echoes its argument, so each call
    has its own value and the trace is functional exactly if the keys tell the arguments apart."""
    tw = rng.choice(TWINS)
    order = list(tw)
    rng.shuffle(order)
    static = rng.random() < 0.5
    by_kw = rng.random() < 0.3
    cf = dict(alias=rng.choice(["get_user", "db.fetch", "load"]), resolver={"kind": "none"}, cap=None, static=static,
              property=False, handler=rng.choice(["none", "wrap"]), prep_discards=False, run_missing=False,
              vmiss={"kind": "none"}, fallbacks={"kind": "none"})
    c = {"k": "ret", "e": {"var": 0}}
    for i, v in reversed(list(enumerate(order))):
        site = {"k": "in", "cfg": rd.clean(cf), "body": {"k": "ret", "e": {"var": 0}}, "next": c}
        site["args"], site["kwargs"] = ([], [["a", {"lit": v}]]) if by_kw else ([{"lit": v}], [])
        c = site
    return dict(cls="OpA", classlevel=False, extractor={"kind": "none"}, body=c)


def threaded_outputs(rng):
    """The operation thread and worker threads (started and joined one after another) call the SAME output alias."""
    def out(i):
        return {"k": "out", "cfg": dict(alias="send", static=rng.random() < 0.5, handler="none", fail=True, default=pv.none()),
                "body": {"k": "ret", "e": {"lit": pv.i(100 + i)}}, "args": [{"lit": pv.i(i)}], "kwargs": []}
    i = 0
    stmts = []
    for _ in range(rng.randrange(2, 5)):
        if rng.random() < 0.5:
            stmts.append(out(i))
            i += 1
        else:
            c = {"k": "ret", "e": {"lit": pv.none()}}
            for _ in range(rng.randrange(1, 3)):
                o = out(i)
                i += 1
                o["next"] = c
                c = o
            stmts.append({"k": "spawn", "c": c})
    stmts.append(out(i))
    c = {"k": "ret", "e": {"var": 0}}
    for st in reversed(stmts):
        st = dict(st)
        st["next"] = c
        c = st
    return dict(cls="OpA", classlevel=False, extractor={"kind": "none"}, body=c)


def _icfg(alias, static, handler="none", cap=None, fallbacks=None):
    return dict(alias=alias, resolver={"kind": "none"}, cap=cap, static=static, property=False, handler=handler,
                prep_discards=False, run_missing=False, vmiss={"kind": "none"}, fallbacks=fallbacks or {"kind": "none"})


def fallback_priority_ops():
    """A renamed input that keeps its old alias as a fallback while the OLD input is still in use: both are called with equal
    arguments in one operation, each answering differently, so the recording holds data under the main alias key AND under a
    fallback alias key of the renamed input.  The candidates are a priority list (main alias first): the renamed input must
    get what IT returned.  Every combination of {old input called before / after the renamed one} x {the fallback key sorts
    before / after the main key} x {fallbacks as list / function} x {two fallbacks, the recorded one listed last} - the order
    in which a cassette hands the keys back (insertion order in memory, sorted by the JSON stores) must not matter."""
    out = []
    k = 0
    for old_first in (True, False):
        for main, old in (("profile_v2", "profile"), ("account", "legacy.account")):     # old < main ; main < old
            for fk in ("list", "fun"):
                for fbl in ([old], ["never.recorded", old]):
                    static = bool(k % 2)
                    handler = ["none", "wrap"][(k // 2) % 2]
                    s_old = {"k": "in", "cfg": _icfg(old, static, handler), "body": {"k": "ret", "e": {"lit": pv.i(10)}},
                             "args": [{"lit": pv.i(7)}], "kwargs": []}
                    s_new = {"k": "in", "cfg": _icfg(main, static, handler, fallbacks={"kind": fk, "l": list(fbl)}),
                             "body": {"k": "ret", "e": {"lit": pv.i(11)}}, "args": [{"lit": pv.i(7)}], "kwargs": []}
                    send = {"k": "out", "cfg": dict(alias="send", static=True, handler="none", fail=True, default=pv.none()),
                            "body": {"k": "ret", "e": {"lit": pv.none()}}, "args": [{"var": 0}, {"var": 1}], "kwargs": []}
                    c = {"k": "ret", "e": {"var": 1}}       # (the outputs and the result depend on both answers)
                    for st in reversed(([s_old, s_new] if old_first else [s_new, s_old]) + [send]):
                        st["next"] = c
                        c = st
                    out.append((dict(cls="OpA", classlevel=False, extractor={"kind": "none"}, body=c), k))
                    k += 1
    return out


def named_captures(rng):
    """One input with TWO OR THREE captured arguments given by position and name (the usual CapturedArg(2, 'b') form), all
    passed positionally, called several times with the same values in different positions - every call has its own key
    and its own answer, and a key built from the same values in another order is the key of another call."""
    static = rng.random() < 0.5
    lo = 0 if static else 1
    npos = rng.choice([2, 3, 3])
    names = rng.sample(["origin", "dest", "day", "a", "b", "opt"], npos)
    order = list(range(npos))
    rng.shuffle(order)                                   # (capture_args need not be listed in positional order)
    cap = [[lo + p, names[p]] for p in order]
    vals = rng.choice([[pv.s("TLV"), pv.s("LHR"), pv.s("fri")], [pv.i(1), pv.i(2), pv.i(3)], [pv.s("a"), pv.s("b"), pv.s("c")]])[:npos]
    import itertools
    perms = list(itertools.permutations(vals))
    rng.shuffle(perms)
    perms = perms[:rng.randrange(2, 5)]
    cf = _icfg(rng.choice(["fare", "db.fetch"]), static, rng.choice(["none", "none", "wrap"]), cap=cap)
    c = {"k": "ret", "e": {"var": 0}}
    send = {"k": "out", "cfg": dict(alias="send", static=True, handler="none", fail=True, default=pv.none()),
            "body": {"k": "ret", "e": {"lit": pv.none()}}, "args": [{"var": i} for i in range(len(perms))], "kwargs": [], "next": c}
    c = send
    for i, pm in reversed(list(enumerate(perms))):
        args = list(pm) + [pv.s("uncaptured")] * (3 - npos)
        c = {"k": "in", "cfg": rd.clean(cf), "body": {"k": "ret", "e": {"lit": pv.i(300 + 7 * i)}},
             "args": [{"lit": a} for a in args], "kwargs": [], "next": c}
    return dict(cls="OpA", classlevel=False, extractor={"kind": "none"}, body=c)


def bulk_arguments(rng, k):
    """Round 7: one input called with a whole table / document / id list - captured arguments that encode to several KB (the
    key is several KB long) - twice with arguments that differ only near the END (far beyond any prefix), next to a call
    with short arguments; positional, keyword, and selected by capture_args.  Each call has its own answer."""
    static = k % 2 == 0
    lo = 0 if static else 1
    n = rng.randrange(150, 260)
    shapes = [lambda tag: pv.lst([pv.i(1000 + 7 * i) for i in range(n)] + [pv.i(tag)]),
              lambda tag: pv.lst([pv.s("stop-%04d" % i) for i in range(n)] + [pv.s("t%d" % tag)]),
              lambda tag: pv.dct([("k%03d" % i, pv.i(i)) for i in range(n // 2)] + [("tag", pv.i(tag))]),
              lambda tag: pv.s("row;" * 700 + str(tag))]
    mk = shapes[k % len(shapes)]
    by_kw = (k // 2) % 3 == 1
    cap = [[lo, "table"], [None, "opt"]] if (k // 2) % 3 == 2 else None
    cf = _icfg(["db.fetch_rows", "bulk.load"][k % 2], static, ["none", "wrap"][(k // 4) % 2], cap=cap)
    calls = [mk(1), mk(2), pv.lst([pv.i(1)]), mk(1)]      # (the last call repeats the first: same key, same answer)
    c = {"k": "ret", "e": {"var": 1}}
    send = {"k": "out", "cfg": dict(alias="send", static=True, handler="none", fail=True, default=pv.none()),
            "body": {"k": "ret", "e": {"lit": pv.none()}}, "args": [{"var": i} for i in range(len(calls))], "kwargs": [], "next": c}
    c = send
    for i, v in reversed(list(enumerate(calls))):
        site = {"k": "in", "cfg": rd.clean(cf), "body": {"k": "ret", "e": {"lit": pv.i(700 + (0 if i == 3 else i))}}, "next": c}
        site["args"], site["kwargs"] = ([], [["table", {"lit": v}]]) if by_kw else ([{"lit": v}, {"lit": pv.s("x")}], [])
        c = site
    return dict(cls="OpA", classlevel=False, extractor={"kind": "none"}, body=c)


XPROC_SEEDS = ["1", "2", "3"]


def xproc_case(op, copy=False):
    """recorded by one interpreter process into a file-based cassette, replayed by OTHER processes (one per replay, each with
    its own PYTHONHASHSEED; the recording process runs with seed 0): see harness/impl/rec_probes.py"""
    runs = [dict(kind="record", enabled=True, prm=dict(PRM, copy=copy), op=op, save_fails=False)]
    segs = [{"runs": [0], "hashseed": "0"}]
    for k, hs in enumerate(XPROC_SEEDS):
        runs.append(dict(kind="play", target=0, pf={"kind": "op", "op": rd.clean(op)}, enabled=bool(k % 2)))
        segs.append({"runs": [k + 1], "hashseed": hs})
    return dict(kind="xproc", draws=[], runs=runs, segments=segs, cassette="file", unshare=True)


def generate(rng, tier):
    cases = []
    frng = random.Random(rng.random())      # (its own stream: the cases below do not shift the ones after them)
    for op, k in fallback_priority_ops():   # main alias and a recorded fallback alias both present (deterministic, always runs)
        runs = [dict(kind="record", enabled=True, prm=dict(PRM), op=op, save_fails=False),
                dict(kind="play", target=0, pf={"kind": "op", "op": rd.clean(op)}, enabled=bool(k % 2))]
        cases.append(dict(draws=[], runs=runs, cassette=["memory", "file", "s3"][k % 3], unshare=True))
    xrng = random.Random(frng.random())
    xp = [xproc_case(named_captures(xrng)) for _ in range(6 if tier == "quick" else 24)]
    brng = random.Random(20260929)          # (own fixed stream: the same bulk cases in every tier and for every seed)
    bulk = [bulk_arguments(brng, k) for k in range(4 if tier == "quick" else 12)]
    xp += [dict(xproc_case(op), bulk=True) for op in bulk]
    for _ in range(4 if tier == "quick" else 24):        # programs of the main stream, through separate processes
        op = rd.rand_opdef(xrng, W, budget=xrng.choice([5, 9]), cls="OpA")
        functionalise(xrng, op["body"], {})
        xp.append(xproc_case(op, copy=xrng.random() < 0.3))
    for static in (True, False):            # every captured position of static and instance inputs, and capture by name
        for pos, byname in ((0, False), (1, False), (2, False), (0, True)):
            op = capture_subsets(frng, static, pos, byname)
            runs = [dict(kind="record", enabled=True, prm=dict(PRM), op=op, save_fails=False),
                    dict(kind="play", target=0, pf={"kind": "op", "op": rd.clean(op)}, enabled=False)]
            cases.append(dict(draws=[], runs=runs, cassette="memory", unshare=True))
    n = 200 if tier == "quick" else 3000
    for i in range(n):
        if i % 25 == 7:
            op = many_outputs(rng)
        elif i % 10 == 9:
            op = capture_subsets(rng)
        elif i % 10 == 3:
            op = type_twins(rng)
        elif i % 10 == 5:
            op = threaded_outputs(rng)
        else:
            op = rd.rand_opdef(rng, W, budget=rng.choice([5, 9, 14]), cls=rng.choice(["OpA", "OpB"]))
            table = {}
            functionalise(rng, op["body"], table)
            scrub_terminals(op["body"], table, rng)
        runs = [dict(kind="record", enabled=True, prm=dict(PRM, copy=rng.random() < 0.3), op=op, save_fails=False)]
        for _ in range(rng.choice([1, 1, 2])):
            runs.append(dict(kind="play", target=0, pf={"kind": "op", "op": rd.clean(op)}, enabled=rng.random() < 0.5))
        if i % 5 == 1:
            # a recorder that is not fresh: the same operation is recorded again AFTER a replay ran on this recorder, and
            # that later recording (and the first one again) is replayed
            runs.append(dict(kind="record", enabled=True, prm=dict(PRM, copy=rng.random() < 0.3), op=op, save_fails=False))
            runs.append(dict(kind="play", target=1, pf={"kind": "op", "op": rd.clean(op)}, enabled=rng.random() < 0.5))
            runs.append(dict(kind="play", target=0, pf={"kind": "op", "op": rd.clean(op)}, enabled=rng.random() < 0.5))
        cases.append(dict(draws=[], runs=runs, cassette=["memory", "file", "s3"][i % 3], unshare=True))
    cases += mutation_probes()
    cases += shared_probes()
    # the cross-process cases start several interpreters each: spread them over the driver's (contiguous) shards
    step = max(1, len(cases) // len(xp))
    for j, c in enumerate(xp):
        cases.insert(min(len(cases), j * (step + 1) + 3), c)
    return cases


# ---- probe stream: the operation keeps working in place on what an input returned (copy-on-interception on) -------------
# The program DSL of the main stream has immutable values only, so "intercepted objects are not mutated after capture unless
# copy-on-interception is on" was never exercised on its permitted side.  These hand-written operations (implementation only:
# the Coq model has no mutable values) do exactly that, for every container shape an input can return.

_I, _S, _L, _T, _D = pv.i, pv.s, pv.lst, pv.tup, pv.dct
_O = lambda cls, kv: {"t": "obj", "cls": "lib.pyvals." + cls, "v": [list(x) for x in kv]}      # noqa: E731
_pair = lambda k, v: _L([_S(k), v])                                                              # noqa: E731

# name, value the input returns, [(path to the node changed in place, operation, argument)]
MUT_SHAPES = [
    ("tuple-of-list", _T([_L([_I(30), _I(10), _I(20)]), _I(3)]), [([0], "sort", None)]),
    ("tuple-of-dict", _T([_D([("state", _S("new")), ("n", _I(1))]), _S("x")]), [([0], "setitem", _pair("state", _S("processed")))]),
    ("tuple-of-object", _T([_O("Pt", [("x", _I(1)), ("rows", _L([_I(1)]))]), _I(2)]),
     [([0], "setattr", _pair("x", _I(5))), ([0, ["attr", "rows"]], "append", _I(9))]),
    ("tuple-in-tuple", _T([_T([_I(1), _L([_I(2)])]), _T([_I(3)])]), [([0, 1], "append", _I(100))]),
    ("tuple-of-set", _T([{"t": "set", "v": [_I(1), _I(2)]}, _S("s")]), [([0], "add", _I(7))]),
    ("list", _L([_I(3), _I(1), _I(2)]), [([], "append", _I(100)), ([], "reverse", None)]),
    ("list-of-tuple-of-list", _L([_T([_L([_I(1)]), _S("k")]), _I(0)]), [([0, 0], "extend", _L([_I(2), _I(3)]))]),
    ("dict", _D([("items", _L([_I(1), _I(2), _I(3)])), ("state", _S("new"))]),
     [(["items"], "append", _I(100)), ([], "setitem", _pair("state", _S("processed")))]),
    ("dict-delete", _D([("a", _I(1)), ("b", _I(2))]), [([], "delitem", _S("a"))]),
    ("dict-of-tuple-of-dict", _D([("a", _L([_T([_D([("b", _L([_I(1)]))]), _I(2)])]))]), [(["a", 0, 0, "b"], "append", _I(5))]),
    ("object", _O("Pt", [("rows", _L([_I(1), _I(2)])), ("name", _S("n"))]),
     [([["attr", "rows"]], "pop", None), ([], "setattr", _pair("name", _S("renamed")))]),
    ("object-in-list-in-tuple", _T([_L([_O("Qt", [("y", _D([("k", _I(1))]))])]), _I(1)]),
     [([0, 0, ["attr", "y"]], "setitem", _pair("k2", _I(2)))]),
    ("list-clear", _L([_L([_I(1)]), _L([_I(2)])]), [([0], "clear", None), ([], "pop", None)]),
]


def mutation_probes():
    """Every shape x {instance, static input} x {no handler, a pass-through data handler, a wrapping data handler} spread over
    the three cassettes (shape k, variant j -> cassette (k + j) mod 3), plus operations with two inputs changed alternately
    and an input with a captured argument.  Deterministic: the same cases in both tiers and for every seed."""
    out = []
    variants = [(False, "none"), (True, "none"), (False, "plain"), (False, "wrap"), (True, "wrap")]
    for k, (name, value, muts) in enumerate(MUT_SHAPES):
        for j, (static, handler) in enumerate(variants):
            steps = [["load", "a", "load"], ["send", "a"]]
            for path, op, arg in muts:
                steps += [["mut", "a", path, op, arg], ["send", "a"]]
            steps.append(["ret", ["a"]])
            out.append(dict(kind="mutation", shape=name, cassette=["memory", "file", "s3"][(k + j) % 3], copy=True,
                            static=static, handler=handler, inputs={"load": value}, steps=steps, plays=1 + (k + j) % 2))
    for k, (name, value, muts) in enumerate(MUT_SHAPES):
        # "keep only the interesting runs": a class that is never sampled (rate 0) whose operation enforces sampling, right
        # after reading its input / in the middle / at the very end
        steps = [["load", "a", "load"], ["send", "a"]]
        for path, op, arg in muts:
            steps += [["mut", "a", path, op, arg], ["send", "a"]]
        at = [1, len(steps) // 2 + 1, len(steps)][k % 3]
        steps = steps[:at] + [["force"]] + steps[at:] + [["ret", ["a"]]]
        out.append(dict(kind="mutation", shape=name, cassette=["memory", "file", "s3"][k % 3], copy=True, rate=0,
                        static=False, handler="none", inputs={"load": value}, steps=steps, plays=1))
    for k in range(len(MUT_SHAPES)):
        (n1, v1, m1), (n2, v2, m2) = MUT_SHAPES[k], MUT_SHAPES[(k + 5) % len(MUT_SHAPES)]
        # two inputs: the second is read after the first was changed; both are changed; the first is changed again at the end
        steps = [["load", "a", "first"], ["mut", "a"] + list(m1[0]), ["load", "b", "second", _I(k)], ["send", "a"],
                 ["mut", "b"] + list(m2[0]), ["send", "b"]]
        steps += [["mut", "a"] + list(m) for m in m1[1:]] + [["ret", ["b", "a"]]]
        out.append(dict(kind="mutation", shape=n1 + "+" + n2, cassette=["memory", "file", "s3"][k % 3], copy=True,
                        static=bool(k % 2), handler="none", inputs={"first": v1, "second": v2}, steps=steps, plays=2))
    return out


def shared_probes():
    """Round 7: values with INTERNAL SHARING that the serializer round-trips correctly - one plain list / dict (no object holding
    a container: that is the region of known finding F07c) reachable twice inside one intercepted value: [x, x], two dict
    entries sharing a row, (x, x), a row shared across nesting levels.  The operation reads the value twice, sends it, returns
    it; copy-on-interception on and off; three cassettes; static / instance inputs; handlers.  Same runner and predicate as the
    mutation probes (the value handed to the operation at every read, the outputs, the result).  Deterministic."""
    ref = {"t": "ref"}
    let = lambda x, body: {"t": "let", "x": x, "in": body}      # noqa: E731
    shapes = [
        ("list-twice-in-list", let(_L([_I(1), _I(2)]), _L([ref, ref])), [([0], "append", _I(9))]),
        ("row-under-two-dict-keys", let(_D([("fare", _I(5)), ("zone", _S("a"))]), _D([("mon", ref), ("tue", ref), ("n", _I(2))])),
         [(["mon"], "setitem", _pair("fare", _I(7)))]),
        ("list-twice-in-tuple", let(_L([_S("r")]), _T([ref, ref, _I(0)])), [([1], "extend", _L([_S("s"), _S("t")]))]),
        ("dict-shared-across-levels", let(_D([("k", _L([_I(1)]))]), _L([_D([("a", ref)]), _L([ref]), _I(3)])),
         [([0, "a", "k"], "append", _I(2)), ([1, 0], "setitem", _pair("k2", _I(4)))]),
        ("list-three-times", let(_L([]), _D([("a", ref), ("b", _L([ref, ref]))])), [(["b", 1], "append", _S("x"))]),
    ]
    out = []
    variants = [(False, "none", True), (True, "none", False), (False, "wrap", True), (True, "plain", False), (False, "none", False)]
    for k, (name, value, muts) in enumerate(shapes):
        for j, (static, handler, copy) in enumerate(variants):
            # (no in-place change: HEAD hands the replayed operation an EQUAL value whose two occurrences are distinct objects -
            # the cassette round trip of a whole recording does not keep the identity, neighbourhood of F07c - so only what the
            # value IS is compared, at every path: read, sent, read again, returned)
            steps = [["load", "a", "load"], ["send", "a"], ["load", "b", "load"], ["send", "b"], ["ret", ["a", "b"]]]
            out.append(dict(kind="shared", shape=name, cassette=["memory", "file", "s3"][(k + j) % 3], copy=copy, static=static,
                            handler=handler, inputs={"load": value}, steps=steps, plays=1 + (k + j) % 2))
    return out


def canon_rec(items):
    return sorted(([k, canon_datum(d)] for k, d in items), key=lambda kd: kd[0])


def canon_datum(d):
    d = dict(d)
    for f in ("v",):
        if f in d:
            d[f] = pv.canon_json(d[f])
    if "args" in d:
        d["args"] = [pv.canon_json(x) for x in d["args"]]
        d["kwargs"] = sorted([k, pv.canon_json(v)] for k, v in d["kwargs"])
    return d


def top_calls(trace):
    out, stack = [], []
    for e in trace:
        if e["e"] == "begin":
            stack.append(e)
        elif e["e"] == "call":
            b = stack.pop()
            if not stack:
                out.append((b["alias"], rd.canon_outcome(e["o"])))
    return out


def direct(case, obs):
    if "driver_exception" in obs:
        return [("driver", obs["driver_exception"] + obs.get("trace", "")[-400:])]
    if case.get("kind") in ("mutation", "shared"):
        return direct_mutation(case, obs)
    fails = []
    rec_obs = [ob for run, ob in zip(case["runs"], obs["runs"]) if run["kind"] == "record"]
    if case.get("probe") == "F01-thread-inside-interception":
        rec_ob = rec_obs[0]
        if not [c for c in rec_ob["cass"] if c["c"] == "save"] or rec_ob["outcome"]["o"] == "int":
            return fails
        d = [ob for run, ob in zip(case["runs"], obs["runs"]) if run["kind"] == "play" and
             canon_rec(ob["pbouts"]) != canon_rec(ob["recouts"])]
        return [("F01-thread-inside-interception", "outputs sent by a worker thread started inside an intercepted body were "
                 "recorded but are not reproduced by the replay")] if d else []
    for t, rec_ob in enumerate(rec_obs):
        saved = [c for c in rec_ob["cass"] if c["c"] == "save"]
        if not saved or rec_ob["outcome"]["o"] == "int":
            continue
        plays = [(i, ob) for i, (run, ob) in enumerate(zip(case["runs"], obs["runs"]))
                 if run["kind"] == "play" and run["target"] == t]
        if saved[0].get("fetch_ok") is False:
            # the cassette did not hand back what was saved: the serializer's py/id defect (a value referenced twice inside
            # one recording, e.g. an exception recorded by an interception and again as the operation's outcome, after a
            # plain object holding a list/dict).  Everything downstream of it is that finding, not a new violation.
            diff = any(ob["outcome"] != {"o": "val", "v": {"t": "none"}} or canon_rec(ob["pbouts"]) != canon_rec(ob["recouts"]) or
                       top_calls(ob["trace"]) != top_calls(rec_ob["trace"]) for _, ob in plays)
            fails.append(("F07c-pyid-shift", "the fetched recording differs from the saved one (shared reference after an "
                          "object with a container attribute)%s" % ("; the replay differs from the record run" if diff else "")))
            continue
        for i, ob in plays:
            if ob["outcome"] != {"o": "val", "v": {"t": "none"}}:
                fails.append(("replay-failed", "run %d: play() of a saved complete recording on the unchanged program ended "
                              "with %s" % (i, ob["outcome"])))
                continue
            if top_calls(ob["trace"]) != top_calls(rec_ob["trace"]):
                a, b_ = top_calls(rec_ob["trace"]), top_calls(ob["trace"])
                k = next((j for j, (x, y) in enumerate(zip(a, b_)) if x != y), min(len(a), len(b_)))
                fails.append(("interception-outcome-differs", "run %d: intercepted call #%d: recorded %s, replayed %s" %
                              (i, k, a[k] if k < len(a) else None, b_[k] if k < len(b_) else None)))
            if any(e["e"] == "body" for e in ob["trace"]):
                fails.append(("body-executed-during-replay", "run %d" % i))
            if canon_rec(ob["pbouts"]) != canon_rec(ob["recouts"]):
                pk, rk = dict(canon_rec(ob["pbouts"])), dict(canon_rec(ob["recouts"]))
                diff = sorted(k for k in set(pk) | set(rk) if pk.get(k) != rk.get(k))
                fails.append(("outputs-differ", "run %d: playback outputs and recorded outputs differ at %s" % (i, diff[:4])))
    return fails


def direct_mutation(case, obs):
    """Replay on unchanged code reproduces the recorded run, for an operation that changed its inputs in place after capture
    (copy-on-interception on): the replay ends normally, every input call hands the operation what it handed it while
    recording, no body runs, and the playback outputs equal the recorded outputs (operation result included)."""
    what = "%s (%s input, handler %s, %s cassette%s)" % (
        case["shape"], "static" if case.get("static") else "instance", case.get("handler"), case["cassette"],
        ", sampling rate 0 with sampling enforced by the operation" if case.get("rate") == 0 else "") + \
        ("; one list / dict is reachable twice inside the value" if case.get("kind") == "shared" else "")
    if obs["outcome"]["o"] != "val" or not obs["saved"]:
        return [("probe-not-recorded", "%s: the record run ended with %s, saved=%s" % (what, obs["outcome"], obs["saved"]))]
    if not obs["fetch_ok"]:
        return [("probe-fetch-differs", "%s: the cassette does not hand back what was saved" % what)]
    fails = []
    pre = "shared-value" if case.get("kind") == "shared" else "mutated-input"
    for i, ob in enumerate(obs["plays"]):
        if ob["outcome"] != {"o": "val", "v": {"t": "none"}}:
            fails.append((pre + "-replay-failed", "%s, replay %d: play() on the unchanged operation ended with %s" %
                          (what, i, ob["outcome"])))
            continue
        if ob["handed"] != obs["handed"]:
            k = next((j for j, (x, y) in enumerate(zip(obs["handed"], ob["handed"])) if x != y),
                     min(len(obs["handed"]), len(ob["handed"])))
            fails.append((pre + "-interception-outcome-differs", "%s, replay %d: input call #%d returned %s while recording "
                          "and %s in the replay (the operation changed the returned container in place after the capture; "
                          "copy-on-interception is %s)" % (what, i, k, obs["handed"][k:k + 1], ob["handed"][k:k + 1],
                                                             "on" if case.get("copy", True) else "off")))
        if ob["bodies_run"]:
            fails.append(("body-executed-during-replay", "%s, replay %d: %s" % (what, i, ob["bodies_run"])))
        if canon_rec(ob["pbouts"]) != canon_rec(ob["recouts"]):
            pk, rk = dict(canon_rec(ob["pbouts"])), dict(canon_rec(ob["recouts"]))
            diff = sorted(k for k in set(pk) | set(rk) if pk.get(k) != rk.get(k))
            fails.append((pre + "-outputs-differ", "%s, replay %d: playback outputs and recorded outputs differ at %s: "
                          "recorded %s, replayed %s" % (what, i, diff[:3], str(rk.get(diff[0]))[:300], str(pk.get(diff[0]))[:300])))
    return fails


# ---- the probe stream is implementation only: the hooks of rec_common apply to history cases ---------------------------------
_h_to_gallina, _h_explain, _h_features, _h_nontrivial, _h_shrink = to_gallina, explain, features, nontrivial, shrink_candidates  # noqa: F405


def to_gallina(case, obs):  # noqa: F811
    return None if case.get("kind") in ("mutation", "shared") else _h_to_gallina(case, obs)


def explain(case, obs):  # noqa: F811
    return "tt" if case.get("kind") in ("mutation", "shared") else _h_explain(case, obs)


def features(case):  # noqa: F811
    if case.get("kind") not in ("mutation", "shared"):
        fs = _h_features(case)
        if case.get("kind") == "xproc":
            fs |= {"recorded-and-replayed-by-different-processes", "hash-seeds:" + ",".join(sg["hashseed"] for sg in case["segments"])}
            if case.get("bulk"):
                fs.add("in:captured-arguments-of-several-KB")
        for r in case["runs"]:
            if r["kind"] == "record":
                caps = [len([c for c in n["cfg"]["cap"] if c[0] is not None and c[1]]) for n in rd.walk(r["op"]["body"])
                        if n["k"] == "in" and n["cfg"]["cap"]]
                if any(c >= 2 for c in caps):
                    fs.add("in:two-or-more-named-positional-captures")
                ins = [n for n in rd.walk(r["op"]["body"]) if n["k"] == "in"]
                if any(n["cfg"]["fallbacks"]["kind"] in ("list", "fun") and
                       any(m is not n and m["cfg"]["alias"] in n["cfg"]["fallbacks"]["l"] for m in ins) for n in ins):
                    fs.add("in:fallback-alias-also-recorded-by-another-input")
        return fs
    return {"probe:mutated-after-capture" if case["kind"] == "mutation" else "probe:value-with-internal-sharing",
            "copy-on-interception=%s" % bool(case.get("copy", True)), "probe-shape:" + case["shape"], "probe-handler:%s" % case.get("handler"),
            "probe-input:" + ("static" if case.get("static") else "instance"), "cassette:" + case["cassette"],
            "probe-inputs:%d" % len(case["inputs"]), "copy-on-interception",
            "probe-sampling:" + ("rate-0-enforced" if case.get("rate") == 0 else "default")} | \
        {"probe-op:" + st[3] for st in case["steps"] if st[0] == "mut"}


def nontrivial(case):  # noqa: F811
    return True if case.get("kind") in ("mutation", "shared") else _h_nontrivial(case)


def shrink_candidates(case):  # noqa: F811
    if case.get("kind") in ("mutation", "shared"):
        st = case["steps"]
        return [dict(case, steps=st[:i] + st[i + 1:]) for i in range(len(st)) if st[i][0] in ("mut", "send")] + \
            ([dict(case, plays=1)] if case.get("plays", 1) > 1 else [])
    return _h_shrink(case)


MANIFEST = dict(
    design_ref="6/C01",
    text="Coq theorems by structural induction over the program syntax: a simulation between the decorators while recording "
         "and while replaying (sim_exec: for every replayable program, every intercepting recorder state and EVERY recording "
         "that agrees with the record run's writes, the replay ends with the same outcome, every intercepting decorator hands "
         "its caller the recorded answer, the captured outputs are the record run's output writes, no wrapped body runs), "
         "lifted to saved snapshots fetched through a cassette (functional + canonical writes => recorded outputs and playback "
         "outputs equal entry for entry incl. the operation entry) and to decorated operation + play(); nested interceptions "
         "are not intercepted; the functional-trace hypothesis is shown necessary by a refuting witness. Tie: functional "
         "random programs recorded into the three real cassettes and replayed on the unchanged program; outcome, trace, "
         "playback and recorded outputs compared with the model. Direct predicate: play() returns, every outermost "
         "intercepted call gets its recorded outcome in order, no body runs, playback_outputs == recorded_outputs; the same predicate "
         "on hand-written operations that mutate their inputs in place after capture with copy-on-interception on (all container "
         "shapes, three cassettes; implementation only). Round 6: the history may be spread over several interpreter processes "
         "(recording process and every replaying process with a different PYTHONHASHSEED, file-based cassette in between) - model "
         "and direct predicate apply unchanged; main alias and a recorded fallback alias both present in one recording. Round 7: "
         "cross-process cases whose captured arguments encode to several KB (id lists, tables, long strings; values differing only "
         "at the end); values in which one plain list / dict is reachable twice come back equal (value only - identity is not kept "
         "by the cassette round trip, known finding F07c) with copy-on-interception on and off (implementation only).",
    note="Partial: worker threads inside an operation are not modelled (single-threaded theorem). Hypotheses: no "
         "enable/disable/play_data statements, restore(prepare v) = v, functional trace, canonical stored values (tree "
         "domain; sharing is known finding F07c). Trusted: Coq kernel + vm_compute, hand-written model, correspondence "
         "harness incl. fake bucket for S3.",
    technique="Coq proof (simulation by structural induction, writer-style logs, association-list lemmas) + differential "
              "correspondence by vm_compute over three cassettes")
