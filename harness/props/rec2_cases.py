"""Round-7 case kinds shared by recorder property modules (implementation-only cases: to_gallina is None for them; the driver
side is harness/impl/rec2_probes.py).

kind "nested_scope": a recorded operation inside which other scopes of the same recorder open and close (a replay of an earlier
recording, another decorated operation invoked from the body) before it returns / raises / is interrupted.  The property
texts quantify over every recorded operation; what the operation's body does with the recorder in between is part of that
quantifier.  C17 reads the keep / drop decision and that every created recording is finalised exactly once; C18 reads the
metadata of the saved outer recording and the default lookup."""
from fractions import Fraction

NESTINGS = [["play"], ["call:return"], ["call:raise"], ["play", "call:return"], ["call:return", "call:return"],
            ["call:raise", "play"]]
# (rate, forced where, ignore forcing, draw)
POLICIES = [([1, 1], "none", False, [1, 2]), ([0, 1], "before", False, [1, 2]), ([0, 1], "after", False, [1, 2]),
            ([0, 1], "none", False, [1, 2]), ([1, 2], "none", False, [1, 4]), ([1, 2], "none", False, [3, 4]),
            ([0, 1], "before", True, [1, 2]), ([1, 2], "after", False, [3, 4])]
INTERRUPT_KINDS = ["keyboard", "sysexit", "custom", "genexit"]


def nested_scope_cases():
    """deterministic: nesting x policy inputs x termination (x own captures before / after the nested scopes)"""
    out, k = [], 0
    for nest in NESTINGS:
        for rate, force, ignore, draw in POLICIES:
            for term in ("return", "raise", "interrupt"):
                k += 1
                steps = list(nest)
                if k % 2:
                    steps = ["in"] + steps
                if k % 3:
                    steps = steps + [["out", "data", "in"][k % 3]]
                if force == "before":
                    steps = ["force"] + steps
                elif force == "after":
                    steps = steps + ["force"]
                out.append(dict(kind="nested_scope", cassette="memory" if k % 5 else "file", outer=dict(rate=rate, ignore=ignore),
                                forced=force != "none", steps=steps, term=term, draws=[draw, [1, 2], [1, 2]],
                                interrupt_kind=INTERRUPT_KINDS[k % 4]))
    return out


def file_store_cases():
    """deterministic: a persistent (file) cassette, operations of two classes; one or two of them captured a value the
    serializer refuses - which value x where it was captured x where in the history (first / in the middle / last / twice)"""
    out, k = [], 0
    for bad in ("unser", "unser-nested", "deep"):
        for how in ("input", "output", "data", "result"):
            k += 1
            good = lambda cls: dict(cls=cls, value="good", how=how)       # noqa: E731
            layouts = [[good("OpA"), dict(cls="OpA", value=bad, how=how), good("OpA"), good("OpB")],
                       [dict(cls="OpA", value=bad, how=how), good("OpA"), good("OpB"), dict(cls="OpB", value=bad, how=how), good("OpB")],
                       [good("OpB"), good("OpA"), dict(cls="OpA", value=bad, how=how)]]
            for steps in (layouts if bad != "deep" else layouts[k % 3:k % 3 + 1]):
                out.append(dict(kind="file_store", steps=steps))
    return out


def direct_file_store(case, obs):
    """C05: whole or not at all, read off the store itself - every created recording is either fetched whole (its save went
    through) or absent (the save failed / it was aborted), and the category lookup and replay of the whole ones work"""
    if "driver_exception" in obs:
        return [("driver", obs["driver_exception"] + obs.get("trace", "")[-400:])]
    fails = []
    fate = {}
    cats = {}
    for i, (st, ob) in enumerate(zip(case["steps"], obs["steps"])):
        w = "file cassette, operation %d of %s (%s value captured as %s)" % (i, [(s["cls"], s["value"]) for s in case["steps"]],
                                                                              st["value"], st["how"])
        n = {}
        for c, o in ob["cass"]:
            if c == "create":
                cats[o] = st["cls"]
                n.setdefault(o, [])
            else:
                n.setdefault(o, []).append(c)
        for o, calls in n.items():
            if len(calls) != 1:
                fails.append(("not-finalised-exactly-once", "%s: recording %d was handed back to the cassette %s" % (w, o, calls)))
            fate[o] = "whole" if calls == ["save"] else "absent"
        if ob["outcome"] != "val":
            fails.append(("operation-affected", "%s: the operation itself ended with %s" % (w, ob["outcome"])))
        for o, got in enumerate(ob["stored"]):
            if got != fate.get(o, "absent"):
                fails.append(("stored-neither-whole-nor-absent" if got.startswith("broken") else "stored-state-wrong",
                              "%s: afterwards recording %d (save %s) is '%s' in the store, expected '%s'" %
                              (w, o, "went through" if fate.get(o) == "whole" else "failed", got, fate.get(o, "absent"))))
        for cat in sorted(ob["lookup"]):
            want = sorted(o for o, f in fate.items() if f == "whole" and cats.get(o) == cat)
            if ob["lookup"][cat] != want:
                fails.append(("saved-recordings-not-listed", "%s: afterwards the lookup of category %s gives %s, the recordings "
                              "saved whole are %s" % (w, cat, ob["lookup"][cat], want)))
        for o, r in ob["replays"]:
            if r != "same-outputs":
                fails.append(("saved-recording-does-not-replay", "%s: afterwards replaying recording %d on the unchanged "
                              "operation gives %s" % (w, o, r)))
        if ob["files"] != sum(1 for f in fate.values() if f == "whole"):
            fails.append(("stray-files-in-store", "%s: the cassette directory holds %d files, %d recordings were saved" %
                          (w, ob["files"], sum(1 for f in fate.values() if f == "whole"))))
    return fails


def features_file_store(case):
    fs = {"stream:file-store", "cassette:file"}
    for st in case["steps"]:
        if st["value"] != "good":
            fs.add("unencodable:%s-captured-as-%s" % (st["value"], st["how"]))
    fs.add("unencodable-operations:%d-of-%d" % (sum(1 for s in case["steps"] if s["value"] != "good"), len(case["steps"])))
    return fs


def repatched_cases():
    """deterministic: what changed under the id (a key added / removed / same keys, other values / other arguments) x which
    program is replayed x missing-key policy of the input x cassette x other replays in between"""
    out, k = [], 0
    for first, second in (([1], [1, 2]), ([1, 2], [1]), ([1, 2], [1, 2]), ([1, 2], [3, 1]), ([], [1])):
        for replay in ("first", "second"):
            for policy in ("fail", "run", "value"):
                k += 1
                out.append(dict(kind="repatched", first=first, second=second, replay=replay, policy=policy,
                                cassette="file" if k % 3 == 0 else "memory", between=k % 2))
    return out


def direct_repatched(case, obs):
    if "driver_exception" in obs:
        return [("driver", obs["driver_exception"] + obs.get("trace", "")[-400:])]
    fails = []
    w = ("recording of an operation reading inputs %s replayed on the program reading %s (missing-key policy '%s', %s cassette), "
         "then re-saved under its id with the data of a run reading %s and replayed again%s" %
         (case["first"], case[case["replay"]], case["policy"], case["cassette"], case["second"],
          " (another recording replayed in between)" if case.get("between") else ""))
    for field in ("outcome", "pbouts", "recouts", "state"):
        if obs["replay2"].get(field) != obs["fresh2"].get(field):
            fails.append(("history-dependent", "%s: the second replay differs from the same replay on a fresh recorder in '%s': "
                          "%s vs %s" % (w, field, str(obs["replay2"].get(field))[:200], str(obs["fresh2"].get(field))[:200])))
            break
    for name in ("replay1", "replay2"):
        st = obs[name]["state"]
        if st["active"] or st["force"] or st["counter"] or st["icpt"] or st["public"] != [False, False, True, False, True, True, True]:
            fails.append(("not-idle", "%s: after %s the recorder is not idle: %s" % (w, name, st)))
    return fails


def features_repatched(case):
    a, b = set(case["first"]), set(case["second"])
    return {"stream:recording-changed-under-its-id-between-replays", "cassette:" + case["cassette"], "missing-key-policy:" + case["policy"],
            "stored-keys:" + ("added" if b > a else "removed" if b < a else "same" if a == b else "replaced"),
            "replayed-program:" + case["replay"], "other-replay-in-between:%s" % bool(case.get("between"))}


def is_rec2(case):
    return case.get("kind") in ("nested_scope", "file_store", "repatched")


def where(case):
    return "recorded operation (rate %s/%s%s%s) whose body runs %s and then ends by %s" % (
        case["outer"]["rate"][0], case["outer"]["rate"][1], ", sampling forced" if case["forced"] else "",
        ", class ignores forcing" if case["outer"]["ignore"] else "", case["steps"], case["term"])


def finalisations(obs):
    """creation ordinal -> number of save / failed save / abort calls the cassette saw for it"""
    n = {c["ord"]: 0 for c in obs["cass"] if c["c"] == "create"}
    for c in obs["cass"]:
        if c["c"] in ("save", "savefailed", "abort"):
            n[c["ord"]] = n.get(c["ord"], 0) + 1
    return n


def direct_sampling(case, obs):
    """C17: the decision for the enclosing operation follows (forced, ignore, rate, draw), whatever scopes were nested in it"""
    if "driver_exception" in obs:
        return [("driver", obs["driver_exception"] + obs.get("trace", "")[-400:])]
    fails = []
    if not obs["leaf_saved"]:
        return [("nested-scope-setup", "the rate-1 recording that the nested replay targets was not saved")]
    w = where(case)
    forced = case["forced"] and not case["outer"]["ignore"]
    rate = Fraction(*case["outer"]["rate"])
    if forced or rate >= 1:
        want, used = "save", 0
    else:
        want, used = ("save" if Fraction(*case["draws"][0]) <= rate else "abort"), 1
    mine = [c["c"] for c in obs["cass"] if c["c"] != "create" and c["ord"] == obs["outer_ord"]]
    got = "none" if not mine else "save" if ("save" in mine or "savefailed" in mine) else "abort"
    if not any(c["c"] == "create" and c["ord"] == obs["outer_ord"] for c in obs["cass"]):
        fails.append(("nested-scope-not-recorded", "%s: no recording was created for it" % w))
    elif got != want:
        fails.append(("wrong-decision", "%s: documented decision '%s', cassette saw '%s' for its recording" % (w, want, got)))
    elif obs["draws_used"] != used:
        fails.append(("wrong-number-of-draws", "%s: %d draws consumed, expected %d" % (w, obs["draws_used"], used)))
    for o, n in sorted(finalisations(obs).items()):
        if n != 1:
            fails.append(("not-finalised-exactly-once", "%s: the recording with creation ordinal %d was handed back to the "
                          "cassette %d times (save / abort), cassette calls %s" % (w, o, n, [[c["c"], c["ord"]] for c in obs["cass"]])))
    if obs["state"]["force"]:
        fails.append(("force-flag-sticky", "%s: the force flag is still set afterwards" % w))
    if obs["state"]["active"]:
        fails.append(("recording-left-active", "%s: a recording is still active afterwards" % w))
    return fails


def direct_metadata(case, obs):
    """C18: the saved recording of the enclosing operation states how THAT operation ended"""
    if "driver_exception" in obs:
        return [("driver", obs["driver_exception"] + obs.get("trace", "")[-400:])]
    fails = []
    w = where(case)
    saves = [c for c in obs["cass"] if c["c"] == "save" and c["ord"] == obs["outer_ord"]]
    term = case["term"]
    for s in saves[:1]:
        meta = dict((k, v) for k, v in s["meta"])
        if meta.get("_tape_recorder_operation_class") != {"t": "clsref", "v": "Outer"}:
            fails.append(("wrong-class", "%s: the metadata states class %s" % (w, meta.get("_tape_recorder_operation_class"))))
        inc = meta.get("_tape_recorder_incomplete_recording")
        if inc != {"t": "bool", "v": term == "interrupt"}:
            fails.append(("wrong-incomplete-flag", "%s (nested scopes ended: %s): incomplete flag is %s" % (w, obs["nested"], inc)))
        exc = meta.get("_tape_recorder_exception_in_operation")
        if term != "interrupt" and exc != {"t": "bool", "v": term == "raise"}:
            fails.append(("wrong-exception-flag", "%s: exception flag is %s" % (w, exc)))
        ck = s.get("clock", {})
        if not ck.get("duration_ok") or not ck.get("recorded_at_ok"):
            fails.append(("bad-clock-metadata", "%s: %s" % (w, ck)))
    want = [obs["outer_ord"]] if saves and term != "interrupt" else []
    if obs["lookup"] != want:
        fails.append(("default-lookup-wrong", "%s: default find_matching_recording_ids for its class returned recordings %s, "
                      "the complete saved ones are %s" % (w, obs["lookup"], want)))
    return fails


def features(case):
    if case["kind"] == "file_store":
        return features_file_store(case)
    if case["kind"] == "repatched":
        return features_repatched(case)
    fs = {"stream:nested-scope", "cassette:" + case["cassette"], "outer-ends-by:" + case["term"],
          "rate=%s/%s" % tuple(case["outer"]["rate"])}
    for st in case["steps"]:
        fs.add("in-recorded-operation:" + st)
    if case["forced"]:
        fs.add("force:op" + ("+ignored" if case["outer"]["ignore"] else ""))
    if case["term"] == "interrupt":
        fs.add("interrupt:" + case["interrupt_kind"])
    return fs
