"""Round-7 case kinds shared by recorder property modules (implementation-only cases: to_gallina is None for them; the driver
side is harness/impl/rec2_probes.py).

kind "nested_scope": a recorded operation inside which other scopes of the same recorder open and close (a replay of an earlier
recording, another decorated operation invoked from the body) before it returns / raises / is interrupted.  The property
texts quantify over every recorded operation; what the operation's body does with the recorder in between is part of that
quantifier.  C17 reads the keep / drop decision and that every created recording is finalised exactly once; C18 reads the
metadata of the saved outer recording and the default lookup."""
from fractions import Fraction

NESTINGS = [["play"], ["call:return"], ["call:raise"], ["play", "call:return"], ["call:return", "call:return"],
            ["call:raise", "play"]]
# (rate, forced where, ignore forcing, draw)
POLICIES = [([1, 1], "none", False, [1, 2]), ([0, 1], "before", False, [1, 2]), ([0, 1], "after", False, [1, 2]),
            ([0, 1], "none", False, [1, 2]), ([1, 2], "none", False, [1, 4]), ([1, 2], "none", False, [3, 4]),
            ([0, 1], "before", True, [1, 2]), ([1, 2], "after", False, [3, 4])]
INTERRUPT_KINDS = ["keyboard", "sysexit", "custom", "genexit"]


def nested_scope_cases():
    """deterministic: nesting x policy inputs x termination (x own captures before / after the nested scopes)"""
    out, k = [], 0
    for nest in NESTINGS:
        for rate, force, ignore, draw in POLICIES:
            for term in ("return", "raise", "interrupt"):
                k += 1
                steps = list(nest)
                if k % 2:
                    steps = ["in"] + steps
                if k % 3:
                    steps = steps + [["out", "data", "in"][k % 3]]
                if force == "before":
                    steps = ["force"] + steps
                elif force == "after":
                    steps = steps + ["force"]
                out.append(dict(kind="nested_scope", cassette="memory" if k % 5 else "file", outer=dict(rate=rate, ignore=ignore),
                                forced=force != "none", steps=steps, term=term, draws=[draw, [1, 2], [1, 2]],
                                interrupt_kind=INTERRUPT_KINDS[k % 4]))
    return out


def is_rec2(case):
    return case.get("kind") in ("nested_scope",)


def where(case):
    return "recorded operation (rate %s/%s%s%s) whose body runs %s and then ends by %s" % (
        case["outer"]["rate"][0], case["outer"]["rate"][1], ", sampling forced" if case["forced"] else "",
        ", class ignores forcing" if case["outer"]["ignore"] else "", case["steps"], case["term"])


def finalisations(obs):
    """creation ordinal -> number of save / failed save / abort calls the cassette saw for it"""
    n = {c["ord"]: 0 for c in obs["cass"] if c["c"] == "create"}
    for c in obs["cass"]:
        if c["c"] in ("save", "savefailed", "abort"):
            n[c["ord"]] = n.get(c["ord"], 0) + 1
    return n


def direct_sampling(case, obs):
    """C17: the decision for the enclosing operation follows (forced, ignore, rate, draw), whatever scopes were nested in it"""
    if "driver_exception" in obs:
        return [("driver", obs["driver_exception"] + obs.get("trace", "")[-400:])]
    fails = []
    if not obs["leaf_saved"]:
        return [("nested-scope-setup", "the rate-1 recording that the nested replay targets was not saved")]
    w = where(case)
    forced = case["forced"] and not case["outer"]["ignore"]
    rate = Fraction(*case["outer"]["rate"])
    if forced or rate >= 1:
        want, used = "save", 0
    else:
        want, used = ("save" if Fraction(*case["draws"][0]) <= rate else "abort"), 1
    mine = [c["c"] for c in obs["cass"] if c["c"] != "create" and c["ord"] == obs["outer_ord"]]
    got = "none" if not mine else "save" if ("save" in mine or "savefailed" in mine) else "abort"
    if not any(c["c"] == "create" and c["ord"] == obs["outer_ord"] for c in obs["cass"]):
        fails.append(("nested-scope-not-recorded", "%s: no recording was created for it" % w))
    elif got != want:
        fails.append(("wrong-decision", "%s: documented decision '%s', cassette saw '%s' for its recording" % (w, want, got)))
    elif obs["draws_used"] != used:
        fails.append(("wrong-number-of-draws", "%s: %d draws consumed, expected %d" % (w, obs["draws_used"], used)))
    for o, n in sorted(finalisations(obs).items()):
        if n != 1:
            fails.append(("not-finalised-exactly-once", "%s: the recording with creation ordinal %d was handed back to the "
                          "cassette %d times (save / abort), cassette calls %s" % (w, o, n, [[c["c"], c["ord"]] for c in obs["cass"]])))
    if obs["state"]["force"]:
        fails.append(("force-flag-sticky", "%s: the force flag is still set afterwards" % w))
    if obs["state"]["active"]:
        fails.append(("recording-left-active", "%s: a recording is still active afterwards" % w))
    return fails


def direct_metadata(case, obs):
    """C18: the saved recording of the enclosing operation states how THAT operation ended"""
    if "driver_exception" in obs:
        return [("driver", obs["driver_exception"] + obs.get("trace", "")[-400:])]
    fails = []
    w = where(case)
    saves = [c for c in obs["cass"] if c["c"] == "save" and c["ord"] == obs["outer_ord"]]
    term = case["term"]
    for s in saves[:1]:
        meta = dict((k, v) for k, v in s["meta"])
        if meta.get("_tape_recorder_operation_class") != {"t": "clsref", "v": "Outer"}:
            fails.append(("wrong-class", "%s: the metadata states class %s" % (w, meta.get("_tape_recorder_operation_class"))))
        inc = meta.get("_tape_recorder_incomplete_recording")
        if inc != {"t": "bool", "v": term == "interrupt"}:
            fails.append(("wrong-incomplete-flag", "%s (nested scopes ended: %s): incomplete flag is %s" % (w, obs["nested"], inc)))
        exc = meta.get("_tape_recorder_exception_in_operation")
        if term != "interrupt" and exc != {"t": "bool", "v": term == "raise"}:
            fails.append(("wrong-exception-flag", "%s: exception flag is %s" % (w, exc)))
        ck = s.get("clock", {})
        if not ck.get("duration_ok") or not ck.get("recorded_at_ok"):
            fails.append(("bad-clock-metadata", "%s: %s" % (w, ck)))
    want = [obs["outer_ord"]] if saves and term != "interrupt" else []
    if obs["lookup"] != want:
        fails.append(("default-lookup-wrong", "%s: default find_matching_recording_ids for its class returned recordings %s, "
                      "the complete saved ones are %s" % (w, obs["lookup"], want)))
    return fails


def features(case):
    fs = {"stream:nested-scope", "cassette:" + case["cassette"], "outer-ends-by:" + case["term"],
          "rate=%s/%s" % tuple(case["outer"]["rate"])}
    for st in case["steps"]:
        fs.add("in-recorded-operation:" + st)
    if case["forced"]:
        fs.add("force:op" + ("+ignored" if case["outer"]["ignore"] else ""))
    if case["term"] == "interrupt":
        fs.add("interrupt:" + case["interrupt_kind"])
    return fs
