"""C06 - input lookup keys identify calls by alias and captured argument values only."""
import json
import random

from lib import pyvals as pv
from lib.gallina import gstr, gbool, glist, gpair, gopt, gnat

ID = "C06"
LOG_LEVEL_INVARIANT = True      # (harness/vp.py: a sample of the cases again with logging at DEBUG; same observables)
RUN_MODULE = "RunC06"
DRIVER = "keys_driver.py"
SHARD = 160
MAX_DRIVER_SHARDS = 2     # keep neighbouring cases in one interpreter (history-dependent behaviour)
ALT_ENVS = [{"PYTHONHASHSEED": "1"}, {"PYTHONHASHSEED": "2"}]
RULE = ("random calls (alias, capture selection all/none/by position/by name, static or instance, nested args/kwargs in "
        "the faithful domain) + structurally equal variants (dict/kwargs insertion order shuffled, excluded arguments "
        "changed); each evaluated under PYTHONHASHSEED 0, 1 and 2; exact key text compared with the model; calls that go "
        "through the real decorator are recorded with an intercepted function that does nothing / grows / drains / edits its "
        "arguments in place and / or raises (half of the random calls, and a probe stream of mutable captured arguments x "
        "every body), then made again with fresh equal arguments while that recording is played; a thread probe records and "
        "plays one operation whose 4 worker threads make 25 intercepted calls each with the SAME argument objects (ordinal "
        "by position or keyword, shared options positional or keyword, capture all / by position / by name, static and "
        "instance; interleaving forced by a gate object inside the shared argument, or a 10 us switch interval); "
        "a lookup probe declares the input as the current version of a service does - plain or resolver-formatted alias, "
        "fallback_aliases as a list or a function (1-3 aliases, now and then the main alias / one alias twice) - next to one "
        "older version per fallback alias, records the call and its siblings (the same call with the alias texts swapped "
        "inside the argument values) through those versions (all by one old version, or mixed / twice / not at all) and plays "
        "the recording through the current version; alias texts are names contained in one another, words of the key layout "
        "(args, kwargs, input) and of the value encoding (py/tuple, null, a class path) and occur inside the captured values "
        "(string, part of a string, dict key, attribute name, nested), capture all / none / by position / by name, static "
        "and instance; "
        "non-trivial = at least one captured container argument or keyword; distinct = distinct case")
ASSUMPTIONS = ["float repr() is taken from the implementation side (floats are repr texts in the model); every float text "
               "the harness sends is checked against the grammar Values.JsonWf.float_repr_ok that the injectivity theorem "
               "is stated on (lib/pyvals.float_repr raises otherwise; Run.RunC06.premises_ok re-checks it in Coq); the "
               "grammar was validated against json.dumps/repr of 2,000,000 random doubles on this interpreter",
               "quoted-printable bytes encoding is an oracle (premises of C06_key_injective: invertible, byte strings map "
               "to surrogate-free text; both are theorems for the simple encoder, C06_key_injective_concrete); Coq side "
               "evaluates only byte strings on which the simple encoder is exact (others are checked on the "
               "implementation side)",
               "the thread probe is implementation-side only as far as concurrency goes (the model is sequential: it checks the "
               "key of the probe's first call); the gate object lib.pyvals.Gt is a plain object whose __getstate__ waits on a "
               "barrier (0.5 s timeout) before returning object.__getstate__(self), so its key is that of a plain object; "
               "without the gate the interleaving is whatever the interpreter does with a 10 us switch interval"]
THEOREMS = ["C06_key_deterministic_partial", "C06_excluded_args_irrelevant", "C06_kwargs_order_irrelevant",
            "C06_key_injective", "C06_key_injective_concrete", "C06_dumps_injective", "C06_dumps_self_delimiting",
            "C06_flatten_well_formed", "C06_dumps_not_injective_outside_domain_refuted", "C06_flatten_roundtrip",
            "C06_set_order_refuted"]
TRUSTED = ["harness-side mirror of the capture selection used by the collision search",
           "harness-side mirror of the alias resolver of the lookup probe ({p} = text of one positional argument) and of "
           "'first alias in lookup order that has an entry for the same captured values' used to say what a replayed call "
           "must receive; the looked-up keys are observed by wrapping TapeRecorder._playback_recorded_interception"]

ALIASES = ["get_user", "db.fetch", "a b", "x", "get_user_2", "svc:{id}", "é", "in#1", "a args", "kw, x"]


def rand_call(rng, sets=False):
    alias = rng.choice(ALIASES)
    static = rng.random() < 0.4
    nargs = rng.randrange(0, 4)
    args = [pv.rand_pyval(rng, 3, sets=sets) for _ in range(nargs)]
    if not static:
        args = [pv.s("SELF")] + args     # stands for the instance (never captured with capture_args=None)
    names = rng.sample(["a", "b", "c", "opt", "é"], rng.randrange(0, 3))
    kwargs = [[n, pv.rand_pyval(rng, 2, sets=sets)] for n in names]
    r = rng.random()
    if r < 0.45:
        cap = None
    elif r < 0.55:
        cap = []
    else:
        cap = []
        used = set()
        for _ in range(rng.randrange(1, 4)):
            pos = rng.choice([None, 0, 1, 2, 3]) if rng.random() < 0.9 else 7
            if pos in used:      # capturing one position twice shares one object (py/id): outside the tree domain
                pos = None
            used.add(pos)
            name = rng.choice([None, "a", "b", "c", "opt", "zz"])
            cap.append([pos, name])
    # through the real decorator too, unless the instance itself (position 0) would be captured
    via = static or cap is None or all(p != 0 for p, _ in cap)
    return dict(alias=alias, cap=cap, static=static, args=args, kwargs=kwargs, via_decorator=via)


BODIES = [None, dict(mode="grow"), dict(mode="drain"), dict(mode="edit"), dict(mode="drain", **{"raise": True}),
          {"raise": True}]


def rand_body(rng):
    """What the intercepted function does when the call goes through the real decorator: nothing (half of the calls),
    or change its arguments in place and / or raise."""
    return None if rng.random() < 0.5 else rng.choice(BODIES[1:])


def captured(case, args=None, kwargs=None):
    """Harness-side mirror of the capture selection: canonical (alias, captured values) or None (IndexError)."""
    args = case["args"] if args is None else args
    kwargs = case["kwargs"] if kwargs is None else kwargs
    cap = case["cap"]
    if cap is None:
        a = args if case["static"] else args[1:]
        kw = dict((k, v) for k, v in kwargs)
        kind = "tuple"
    else:
        a, kw, kind = [], {}, "list"
        kwd = dict((k, v) for k, v in kwargs)
        for pos, name in cap:
            if name is not None and name in kwd:
                kw[name] = kwd[name]
            elif pos is not None:
                if pos >= len(args):
                    return None
                a.append(args[pos])
    return json.dumps([case["alias"], kind, [pv.canon_json(x) for x in a],
                       sorted([k, pv.canon_json(v)] for k, v in kw.items())], sort_keys=True)


def variants(rng, case):
    out = []
    for _ in range(2):
        args = [pv.shuffle_dicts(rng, x) for x in case["args"]]
        kwargs = [[k, pv.shuffle_dicts(rng, v)] for k, v in case["kwargs"]]
        rng.shuffle(kwargs)
        out.append(dict(args=args, kwargs=kwargs))
    # change an argument that is excluded from capture (if any): the key must not move
    base = captured(case)
    for _ in range(3):
        args = [x for x in case["args"]]
        kwargs = [[k, v] for k, v in case["kwargs"]]
        if args and rng.random() < 0.6:
            args[rng.randrange(len(args))] = pv.rand_pyval(rng, 1)
        elif kwargs:
            kwargs[rng.randrange(len(kwargs))][1] = pv.rand_pyval(rng, 1)
        if base is not None and captured(case, args, kwargs) == base:
            out.append(dict(args=args, kwargs=kwargs))
    return out


def mutation_probe(rng, tier):
    """Calls whose captured arguments are mutable (list / dict / object / set, top level and nested, positional and
    keyword, capture-all and by position / name, static and instance) through the real decorator with every kind of
    intercepted-function body: the stored key and the replayed value must be those of the values AT THE CALL."""
    def obj(items):
        return {"t": "obj", "cls": "lib.pyvals.Pt", "v": [[k, v] for k, v in items]}
    vals = [pv.lst([]), pv.lst([pv.s("a"), pv.s("b")]), pv.lst([pv.s("c")]), pv.lst([pv.s("MUT")]),
            pv.dct([]), pv.dct([("limit", pv.i(10))]), pv.dct([("limit", pv.i(10)), ("zz_mut", pv.i(1))]),
            obj([("id", pv.i(7))]), obj([("id", pv.i(7)), ("tags", pv.lst([pv.s("x")]))]),
            pv.tup([pv.lst([pv.i(1), pv.i(2)]), pv.i(3)]), pv.lst([pv.dct([("k", pv.lst([pv.i(1)]))])]),
            pv.lst([pv.i(3), pv.i(1), pv.i(2)])]
    for _ in range(4 if tier == "quick" else 40):
        v = pv.rand_pyval(rng, 3)
        if v["t"] in ("list", "dict", "obj", "tuple"):
            vals.append(v)
    out = []
    for v in vals:
        for body in BODIES:
            shape = rng.randrange(5)
            if shape == 0:
                c = dict(alias="mut", cap=None, static=True, args=[v], kwargs=[])
            elif shape == 1:
                c = dict(alias="mut", cap=None, static=False, args=[pv.s("SELF"), pv.i(1), v], kwargs=[])
            elif shape == 2:
                c = dict(alias="mut", cap=None, static=True, args=[], kwargs=[["opt", v]])
            elif shape == 3:
                c = dict(alias="mut", cap=[[1, "b"], [None, "opt"]], static=False, args=[pv.s("SELF"), v, pv.i(2)],
                         kwargs=[["opt", v]])
            else:
                c = dict(alias="mut", cap=[[0, "a"], [2, None]], static=True, args=[v, pv.lst([pv.i(9)]), v], kwargs=[])
            c.update(variants=[], via_decorator=True, body=body, probe="mutating-body")
            out.append(c)
    return out


def thread_probe(rng, tier):
    """One operation whose worker threads make intercepted calls at the same time, all passing the same argument
    objects (an options dict with lists / dicts / objects) plus the ordinal of the call.  With "gate" the shared
    argument holds an object that keeps every thread in the middle of its encoding until all of them are there
    (forced interleaving); without, the interpreter's switch interval is set to 10 us."""
    def obj(cls, items):
        return {"t": "obj", "cls": cls, "v": [[k, v] for k, v in items]}
    out = []
    # (static, capture selection, ordinal passed by keyword, options passed by keyword)
    shapes = [(True, None, False, False), (False, None, False, True), (True, "sel", True, False),
              (True, None, True, True), (False, "sel", False, False), (True, "sel", False, True)]
    for k in range(12 if tier == "quick" else 36):
        gate = k % 2 == 0
        static, cap, ord_kw, as_kw = shapes[(k // 2) % len(shapes)]
        nf = rng.randrange(8, 30)
        opts = [("fields", pv.lst([pv.s(x) for x in rng.sample(["id", "name", "depot", "shift", "é"], 3)])),
                ("ctx", obj("lib.pyvals.Gt" if gate else "lib.pyvals.Pt",
                            [("user", pv.s("u%d" % k)), ("roles", pv.lst([pv.s("r"), pv.s("w")]))])),
                ("filters", pv.lst([pv.dct([("field", pv.s("depot")), ("value", pv.s("depot-%d" % i)),
                                            ("tags", pv.lst([pv.s("a"), pv.i(i)]))]) for i in range(nf)])),
                ("paging", pv.dct([("limit", pv.i(100)), ("order", pv.lst([pv.s("name"), pv.s("id")]))])),
                ("more", pv.rand_pyval(rng, 2))]
        options = pv.dct(opts)
        args = ([] if static else [pv.s("SELF")]) + ([] if ord_kw else [pv.i(0)]) + ([] if as_kw else [options])
        kwargs = ([["shard", pv.i(0)]] if ord_kw else []) + ([["opt", options]] if as_kw else [])
        if cap == "sel":      # the ordinal and the options selected by position / by name, wherever they are
            o_pos = (0 if static else 1) + (0 if ord_kw else 1)
            cap = [[None, "opt"] if as_kw else [o_pos, "opt"], [None, "shard"] if ord_kw else [0 if static else 1, "shard"]]
        conc = dict(threads=4, calls=25, gate=gate)
        if ord_kw:
            conc["vary_kw"] = "shard"
        out.append(dict(alias="shard", cap=cap, static=static, args=args, kwargs=kwargs, variants=[],
                        via_decorator=static or cap is None or all(p != 0 for p, _ in cap),
                        conc=conc, probe="threads"))
    return out


# alias texts for the lookup probe: names a renamed input plausibly had (one a part of the other), words of the key's own
# layout, and texts that occur in the encoding of ordinary values (class path, tags, JSON literals); none contains '='
LOOKUP_ALIASES = ["customer", "account", "user", "user_v1", "get_user", "order", "args", "kwargs", "input", "a", "1", "null",
                  "py/tuple", "py/object", "Pt", "lib.pyvals", "x", "e", ", ", "é", "id"]
LOOKUP_TEMPLATES = ["svc:{p}", "{p}", "{p}.load", "lit{{{p}}}"]


def subst_texts(j, old, new):
    """The same value with `old` replaced by `new` in every str leaf, dict key and attribute name."""
    t = j["t"]
    if t == "str":
        return pv.s(j["v"].replace(old, new))
    if t in ("list", "tuple"):
        return {"t": t, "v": [subst_texts(x, old, new) for x in j["v"]]}
    if t in ("dict", "obj"):
        out = dict(j)
        items, seen = [], set()
        for k, v in j["v"]:
            k2 = k.replace(old, new)
            if k2 in seen or k2.startswith("py/") or (t == "obj" and not k2.isidentifier()):
                k2 = k      # (jsonpickle drops dict keys that look like its own tags: outside the faithful domain)
            seen.add(k2)
            items.append([k2, subst_texts(v, old, new)])
        out["v"] = items
        return out
    return j


def voc_val(rng, texts, depth=2):
    """A value whose encoding holds one of `texts`: as a string, inside a longer string, as a dict key, as an attribute
    name, nested in containers; now and then an ordinary random value."""
    t = rng.choice(texts)
    k = rng.randrange(10 if depth > 0 else 4)
    if k == 0:
        return pv.s(t)
    if k == 1:
        return pv.s(rng.choice(["%s/17", "id:%s", "%s", "old %s new", "%s%s"]).replace("%s", t))
    if k == 2:
        return pv.rand_pyval(rng, 2)
    if k == 3:
        return pv.i(rng.randrange(20))
    if k in (4, 5):
        return pv.lst([voc_val(rng, texts, depth - 1) for _ in range(rng.randrange(1, 3))])
    if k == 6:
        return pv.tup([voc_val(rng, texts, depth - 1), pv.i(1)])
    if k in (7, 8):
        return pv.dct([(t if not t.startswith("py/") else "key", voc_val(rng, texts, depth - 1)), ("k", pv.s(rng.choice(texts)))])
    name = t if t.isidentifier() else "name"
    return {"t": "obj", "cls": rng.choice(list(pv.CLASSES)), "v": [[name, voc_val(rng, texts, depth - 1)]]}


def lookup_case(rng, alias, resolver, fallbacks, fb_kind, static, cap, args, kwargs, scenario):
    """One case of the lookup probe (see keys_driver.run_lookup): sibling calls = the call with the alias texts swapped
    inside its argument values (same shape, other values), recorded next to it."""
    case = dict(alias=alias, cap=cap, static=static, args=args, kwargs=kwargs, variants=[], via_decorator=False,
                probe="fallback-lookup")
    case["lookup"] = lk = dict(resolver=resolver, fallbacks=fallbacks, fb_kind=fb_kind, calls=[], rec=[])
    main = fmt_alias(case, args)
    names = [main if main is not None else alias] + fallbacks
    seen = {captured(dict(case, alias=""), args, kwargs)}
    pairs = [(a, b) for a in names for b in names if a != b and a]
    rng.shuffle(pairs)
    for old, new in pairs:
        a2 = [x if (not static and i == 0) else subst_texts(x, old, new) for i, x in enumerate(args)]
        k2 = [[n, subst_texts(v, old, new)] for n, v in kwargs]
        if resolver is not None:       # the resolver's argument keeps its text: the siblings share the formatted alias
            ri = resolver + (0 if static else 1)
            a2[ri] = args[ri]
        ident = captured(dict(case, alias=""), a2, k2)
        if ident is not None and ident not in seen and len(lk["calls"]) < 3:
            seen.add(ident)
            lk["calls"].append([a2, k2])
    n = 1 + len(lk["calls"])
    if scenario == "old":          # everything was recorded by one old version of the service
        v = rng.randrange(1, len(fallbacks) + 1)
        order = list(range(n))
        rng.shuffle(order)
        lk["rec"] = [[v, ci] for ci in order]
    else:                          # calls recorded by any version, some by two of them, some not at all
        for ci in range(n):
            for v in rng.sample(range(0, len(fallbacks) + 1), min(rng.choice([0, 1, 1, 1, 2]), len(fallbacks) + 1)):
                lk["rec"].append([v, ci])
        rng.shuffle(lk["rec"])
    return case


def lookup_probe(rng, tier):
    """Lookups through fallback aliases and resolver-formatted aliases (always in the quick tier).  The texts of the
    aliases involved occur inside the captured argument values (and some aliases are words of the key layout / of the
    value encoding), so a lookup key that is not built from (that alias, the captured values) shows."""
    out = []
    # fixed family: a renamed input, its argument shapes, every capture kind
    fam = [("customer", ["account"]), ("user", ["user_v1"]), ("user_v1", ["user", "get_user"]), ("args", ["old"]),
           ("x", ["kwargs", "input"]), ("a", ["b"]), ("null", ["1"]), ("Pt", ["Qt"]), ("py/tuple", ["py/set"]),
           ("svc:{p}", ["svc", "customer"])]
    for k, (alias, fbs) in enumerate(fam):
        texts = [alias.replace("{p}", "customer")] + fbs
        t = texts[0]
        shapes = [[pv.s(t + "/17")], [pv.s(t)], [pv.dct([(t if not t.startswith("py/") else "key", pv.i(1))]), pv.i(5)], [pv.lst([pv.s("id:" + t), pv.none()])],
                  [pv.i(3), {"t": "obj", "cls": "lib.pyvals.Pt", "v": [["name", pv.s(t)]]}], [pv.tup([pv.i(1), pv.i(2)])],
                  [pv.i(7)]]
        for j, user in enumerate(shapes):
            static = (j + k) % 2 == 0
            resolver = None
            if "{p}" in alias:
                user = [pv.s("customer")] + user
                resolver = 0
            kwargs = [["opt", pv.s(fbs[0] + " or " + t)]] if j % 3 == 1 else []
            cap = None if j % 3 != 2 else [[(0 if static else 1), "zz"], [None, "opt"]]
            args = ([] if static else [pv.s("SELF")]) + user
            out.append(lookup_case(rng, alias, resolver, fbs, "fun" if j % 4 == 3 else "list", static, cap, args, kwargs,
                                   "old" if j % 2 == 0 else "mixed"))
    for _ in range(100 if tier == "quick" else 1500):
        resolver = None
        if rng.random() < 0.3:
            alias = rng.choice(LOOKUP_TEMPLATES)
            resolver = 0
        else:
            alias = rng.choice(LOOKUP_ALIASES)
        fbs = rng.sample(LOOKUP_ALIASES, rng.choice([1, 1, 2, 3]))
        if rng.random() < 0.1:
            fbs.append(alias if resolver is None else fbs[0])      # the main alias / an alias twice among the fallbacks
        texts = [x for x in [alias.replace("{{", "").replace("}}", "").replace("{p}", "")] + fbs if x]
        static = rng.random() < 0.5
        user = [voc_val(rng, texts) for _ in range(rng.randrange(0 if resolver is None else 1, 4))]
        if resolver is not None:
            user[0] = pv.s(rng.choice(texts + ["17", "a b"]))
        names = rng.sample(["a", "b", "opt"], rng.randrange(0, 3))
        kwargs = [[n_, voc_val(rng, texts, 1)] for n_ in names]
        r = rng.random()
        if r < 0.6:
            cap = None
        elif r < 0.7:
            cap = []
        else:
            lo = 0 if static else 1
            poss = list(range(lo, lo + len(user))) + [None]
            cap, used = [], set()
            for _ in range(rng.randrange(1, 4)):
                pos = rng.choice(poss)
                if pos in used:
                    pos = None
                used.add(pos)
                cap.append([pos, rng.choice([None, "a", "b", "opt"])])
        args = ([] if static else [pv.s("SELF")]) + user
        out.append(lookup_case(rng, alias, resolver, fbs, rng.choice(["list", "list", "fun"]), static, cap, args, kwargs,
                               rng.choice(["old", "mixed"])))
    return out


def reversed_dicts(j):
    """The same value with every dict / object filled in the opposite insertion order."""
    t = j["t"]
    if t in ("list", "tuple"):
        return {"t": t, "v": [reversed_dicts(x) for x in j["v"]]}
    if t in ("dict", "obj"):
        out = dict(j)
        out["v"] = [[k, reversed_dicts(v)] for k, v in reversed(j["v"])]
        return out
    return j


def deep_probe():
    """Round 7: captured arguments nested DEEPER than any fixed bound an encoder might walk to (33 .. 60 container levels;
    config / AST / JSON-like trees): a chain of lists / dicts / tuples / objects with, at the bottom, a dict or an object of
    several entries (its structurally equal variant is filled in the opposite insertion order at every level), and the twin
    bottoms (dict / Pt / Qt with equal entries) that must NOT share a key.  Deterministic: always runs, every tier and seed."""
    def obj(cls, items):
        return {"t": "obj", "cls": "lib.pyvals." + cls, "v": [[k, v] for k, v in items]}
    entries = [("zeta", pv.i(1)), ("alpha", pv.s("é")), ("mid", pv.lst([pv.i(2), pv.none()]))]
    bottoms = [pv.dct(entries), obj("Pt", entries), obj("Qt", entries), pv.lst([pv.dct(entries[:2]), obj("Pt", entries[1:])])]
    wraps = ["list", "dict", "tuple", "obj", "mixed"]
    out = []
    k = 0
    for depth in (33, 36, 40, 60):
        for w in wraps:
            for bottom in bottoms:
                v = bottom
                for lvl in range(depth):
                    kind = w if w != "mixed" else ["list", "dict", "tuple", "obj"][(lvl + k) % 4]
                    if kind == "list":
                        v = pv.lst([v])
                    elif kind == "tuple":
                        v = pv.tup([pv.i(lvl), v])
                    elif kind == "dict":
                        v = pv.dct([("n", v), ("lvl", pv.i(lvl))])
                    else:
                        v = obj("Pt", [("child", v), ("lvl", pv.i(lvl))])
                as_kw = k % 3 == 2
                static = k % 2 == 0
                args = ([] if static else [pv.s("SELF")]) + ([] if as_kw else [pv.i(k % 5), v])
                kwargs = [["tree", v]] if as_kw else []
                c = dict(alias="deep", cap=None if k % 4 else [[None, "tree"], [1 if static else 2, "t"]], static=static, args=args,
                         kwargs=kwargs, via_decorator=(k % 4 == 1), body=None, probe="deep-nesting", depth=depth)
                c["variants"] = [dict(args=[reversed_dicts(x) for x in args], kwargs=[[n, reversed_dicts(x)] for n, x in kwargs])]
                out.append(c)
                k += 1
    return out


NON_ASCII = ["מוסך", "dépôt-é", "停车场", "Ünïcode ß", "\u20ac 5", "emoji \U0001f68c"]


def after_save_probe():
    """Round 7: the key of a call is the same before and after THIS process recorded and saved an operation on a cassette
    of every kind (memory, fake-bucket S3, file) - the key depends on alias and captured values only, not on what the
    process did earlier.  Captured strings / dict keys / kwargs with non-ASCII text next to ASCII ones.  Deterministic."""
    out = []
    for k, t in enumerate(NON_ASCII + ["plain ascii"]):
        vals = [pv.s(t), pv.dct([(t, pv.i(1)), ("name", pv.s(t + "/17"))]), pv.lst([pv.s(t), pv.tup([pv.s(t)])]),
                {"t": "obj", "cls": "lib.pyvals.Pt", "v": [["name", pv.s(t)]]}]
        for j, v in enumerate(vals):
            as_kw = (k + j) % 2 == 1
            out.append(dict(alias="depot", cap=None, static=True, args=[] if as_kw else [v, pv.i(j)],
                            kwargs=[["name", v]] if as_kw else [], variants=[], via_decorator=False, probe="key-after-save",
                            after_save=["memory", "s3", "file"]))
    return out


def fmt_alias(case, args):
    """Harness-side mirror of the alias resolver of the lookup probe: {p} = the text of one positional argument."""
    lk = case["lookup"]
    if lk.get("resolver") is None:
        return case["alias"]
    user = args if case["static"] else args[1:]
    i = lk["resolver"]
    if i >= len(user) or user[i]["t"] != "str":
        return None
    try:
        return case["alias"].format(p=user[i]["v"])
    except Exception:      # noqa
        return None


def generate(rng, tier):
    n = 500 if tier == "quick" else 6000
    cases = []
    for _ in range(n):
        c = rand_call(rng)
        c["variants"] = variants(rng, c)
        cases.append(c)
    brng = random.Random(rng.random())      # own stream: the cases above are those of the earlier rounds
    for c in cases:
        if c["via_decorator"]:
            c["body"] = rand_body(brng)
    cases += mutation_probe(brng, tier)
    cases += thread_probe(brng, tier)
    lrng = random.Random(brng.random())
    # near-collision families: same alias, arguments that differ only in type / nesting / position
    fam = [[pv.i(1)], [pv.b(True)], [{"t": "float", "r": "1.0"}], [pv.s("1")], [pv.lst([pv.i(1)])], [pv.tup([pv.i(1)])],
           [pv.i(1), pv.i(2)], [pv.lst([pv.i(1), pv.i(2)])], [pv.tup([pv.i(1), pv.i(2)])], [pv.s("1, 2")],
           [pv.none()], [pv.s("null")], [pv.dct([])], [pv.lst([])], [pv.tup([])], [pv.s("")], [],
           [pv.dct([("a", pv.i(1))])], [{"t": "obj", "cls": "lib.pyvals.Pt", "v": [["a", pv.i(1)]]}],
           [{"t": "obj", "cls": "lib.pyvals.Qt", "v": [["a", pv.i(1)]]}],
           [pv.i(0)], [pv.b(False)], [{"t": "float", "r": "0.0"}], [pv.i(7)], [{"t": "float", "r": "7.0"}]]
    for alias in ("fam", "fam2"):
        for static in (True,):
            for a in fam:
                cases.append(dict(alias=alias, cap=None, static=static, args=a, kwargs=[], variants=[], via_decorator=True))
            for a in fam:
                if len(a) == 1:
                    cases.append(dict(alias=alias, cap=None, static=static, args=[], kwargs=[["v", a[0]]], variants=[],
                                      via_decorator=True))
    # float texts: every shape of float.__repr__ (fixed, exponent, subnormal, largest, negative zero) next to the int /
    # str / nested values that print alike, as positional and as keyword arguments; then random doubles
    def fl(t):
        return {"t": "float", "r": t}
    ffam = [[fl("1e+16")], [pv.i(10**16)], [pv.s("1e+16")], [fl("1000000000000000.0")], [pv.i(10**15)], [fl("1.5e-07")],
            [fl("5e-324")], [fl("1.7976931348623157e+308")], [fl("-0.0")], [fl("0.0")], [pv.i(0)], [fl("-1.0")], [pv.i(-1)],
            [fl("1.0"), fl("2.0")], [pv.lst([fl("1.0"), fl("2.0")])], [pv.lst([fl("1.0")]), pv.lst([fl("2.0")])],
            [pv.s("1.0, 2.0")], [fl("0.0001")], [fl("1e-05")], [fl("12.0")], [fl("1.0"), pv.i(2)], [pv.i(1), fl("2.0")],
            [pv.dct([("a", fl("1.0"))])], [pv.dct([("a", pv.i(1))])], [pv.tup([fl("2.5"), pv.none()])]]
    import struct
    for _ in range(40 if tier == "quick" else 600):
        x = struct.unpack("<d", struct.pack("<Q", rng.getrandbits(64)))[0]
        if x == x and x not in (float("inf"), -float("inf")):
            ffam.append([fl(repr(x))])
    for a in ffam:
        cases.append(dict(alias="flt", cap=None, static=True, args=a, kwargs=[], variants=[], via_decorator=True))
        if len(a) == 1:
            cases.append(dict(alias="flt", cap=None, static=True, args=[], kwargs=[["v", a[0]]], variants=[],
                              via_decorator=True))
    # large captured arguments (keys of several KB): the key is still the full text, in every process
    for k in range(6 if tier == "quick" else 30):
        big = [pv.dct([("k%03d" % i, pv.i(i * 7 + k)) for i in range(rng.randrange(90, 140))]),
               pv.s("".join(rng.choice("abcdefgh ") for _ in range(rng.randrange(1500, 3500)))),
               pv.lst([pv.s("item-%d" % i) for i in range(rng.randrange(150, 260))])][k % 3]
        as_kw = k % 2 == 1
        cases.append(dict(alias="bulk", cap=None, static=True, args=[] if as_kw else [pv.i(k), big],
                          kwargs=[["doc", big]] if as_kw else [], variants=[], via_decorator=True))
    cases += deep_probe() + after_save_probe()
    # probe stream for the known finding F06: set arguments (hash-seed dependent iteration order)
    for _ in range(12 if tier == "quick" else 100):
        elems = rng.sample(["x", "y", "zz", "abc", "q", "w", "long-string"], rng.randrange(2, 5))
        c = dict(alias="setcall", cap=None, static=True, args=[{"t": "set", "v": [pv.s(e) for e in elems]}], kwargs=[],
                 variants=[], probe="F06")
        cases.append(c)
    cases += lookup_probe(lrng, tier)
    return cases


def has_set(j):
    if j["t"] == "set":
        return True
    if j["t"] in ("list", "tuple"):
        return any(has_set(x) for x in j["v"])
    if j["t"] in ("dict", "obj"):
        return any(has_set(v) for _, v in j["v"])
    return False


def coq_ok(j):
    t = j["t"]
    if t == "bytes":
        return pv.simple_bytes_ok(j["v"])
    if t in ("list", "tuple", "set"):
        return all(coq_ok(x) for x in j["v"])
    if t in ("dict", "obj"):
        return all(coq_ok(v) for _, v in j["v"])
    return t != "other"


def gcap(cap):
    if cap is None:
        return "CapAll"
    return "(CapList %s)" % glist([gpair(gopt(None if p is None else gnat(p)), gopt(None if n is None else gstr(n)))
                                   for p, n in cap])


def to_gallina(case, obs):
    if "driver_exception" in obs:
        return 'Case (U"") CapAll true [] [] (Some (U"driver exception")) None []'
    # the model gets the values as the implementation saw them (sets in their actual iteration order)
    args = obs.get("seen_args", case["args"])
    kwargs = obs.get("seen_kwargs", case["kwargs"])
    if not all(coq_ok(x) for x in args) or not all(coq_ok(v) for _, v in kwargs):
        return None
    dec = "None"
    if "dec_saved" in obs:
        dec = "(Some %s)" % gopt(None if obs["dec_key"] is None else gstr(obs["dec_key"]))
    lookups = []
    lk, lo = case.get("lookup"), obs.get("lookup") or {}
    if lk and "calls" in lo:
        calls = [[case["args"], case["kwargs"]]] + lk["calls"]
        for (a, kw), r in zip(calls, lo["calls"]):
            if not all(coq_ok(x) for x in a) or not all(coq_ok(v) for _, v in kw):
                continue
            lookups.append("(Lookup %s (%s %s) %s %s %s)" % (
                "RNone" if lk["resolver"] is None else "(RArg %s)" % gnat(lk["resolver"]),
                "FbList" if lk["fb_kind"] == "list" else "FbFun", glist([gstr(x) for x in lk["fallbacks"]]),
                glist([pv.to_pyval(x) for x in a]), glist([gpair(gstr(k), pv.to_pyval(v)) for k, v in kw]),
                gopt(None if r["keys"] is None else glist([gstr(x) for x in r["keys"]]))))
    return "Case %s %s %s %s %s %s %s %s" % (
        gstr(case["alias"]), gcap(case["cap"]), gbool(case["static"]),
        glist([pv.to_pyval(x) for x in args]), glist([gpair(gstr(k), pv.to_pyval(v)) for k, v in kwargs]),
        gopt(None if obs["key"] is None else gstr(obs["key"])), dec, glist(lookups))


def explain(case, obs):
    return "model_key (%s)" % to_gallina(case, obs)


_batch = {}


def conc_summary(cc):
    counts = {f: cc.get(f) for f in ("n_calls", "n_expected", "n_missing", "n_extra", "replay_answered", "replay_live",
                                     "n_replay_wrong", "rec_errors", "replay_errors")}
    ex = {f: [str(x)[:400] for x in (cc.get(f) or [])[:1]] for f in ("missing", "extra", "replay_wrong")}
    return json.dumps(counts, ensure_ascii=False)[:600] + " e.g. " + json.dumps(ex, ensure_ascii=False)


def direct_lookup(case, lo):
    """The lookup probe: (a) the key looked up for the main / a fallback alias is exactly the key the same call gets
    under that alias (from the key builder, and the one an older version of the service stored it under); (b) every call
    receives what was recorded for the same captured argument values under the first of its aliases that has such an
    entry, nothing live - never a value recorded for another call - and is not found if there is none."""
    lk = case["lookup"]
    if "err" in lo:
        return [("decorator-raises", lo["err"])]
    if not lo.get("saved"):
        return [("fallback-key-differs", "the operation of the lookup probe left no recording (an input key could not be "
                 "built while recording): %r" % (lo,))]
    fails = []
    calls = [[case["args"], case["kwargs"]]] + lk["calls"]
    blank = dict(case, alias="")
    idents = [captured(blank, a, kw) for a, kw in calls]
    names = [[fmt_alias(case, a)] + lk["fallbacks"] for a, kw in calls]
    # (a) stored keys of the entries = key builder's key for (alias of that version, call)
    for n, (vi, ci) in enumerate(lk["rec"]):
        want = lo["want_keys"][ci]
        if want is not None and lo["entries"][n] != want[vi] and want[vi] not in lo["entries"][:n]:
            fails.append(("decorator-key-differs", "entry %d: the version with alias %r stored call %d under %r, the key "
                          "builder gives %r" % (n, names[ci][vi], ci, lo["entries"][n], want[vi])))
            break
    for ci, r in enumerate(lo["calls"]):
        want = lo["want_keys"][ci]
        if r["keys"] != want:
            j = next((j for j in range(len(want or [])) if r["keys"] is None or j >= len(r["keys"]) or r["keys"][j] != want[j]),
                     None)
            fails.append(("fallback-key-differs", "call %d is looked up under %r; the same call under alias %r has the key %r "
                          "(aliases in lookup order %r)" % (ci, r["keys"], None if j is None else names[ci][j],
                                                            None if j is None else want[j], names[ci])))
            break
    # (b) outcome
    for ci, r in enumerate(lo["calls"]):
        if names[ci][0] is None or idents[ci] is None:
            exp = ["keyerr", "InputInterceptionKeyCreationError"]
        else:
            exp = ["miss", "RecordingKeyError"]
            for al in names[ci]:
                hits = [n for n, (vi, cj) in enumerate(lk["rec"]) if names[cj][vi] == al and idents[cj] == idents[ci]]
                if hits:
                    exp = ["value", "R%d" % hits[-1]]
                    break
        if r["got"] != exp or r["live"] != 0:
            what = "received %r (live executions %d)" % (r["got"], r["live"])
            if r["got"][0] == "value" and r["got"][1].startswith("R"):
                vi, cj = lk["rec"][int(r["got"][1][1:])]
                what += " = what the version with alias %r recorded for call %d, arguments %s" % (
                    names[cj][vi], cj, json.dumps(calls[cj], ensure_ascii=False)[:300])
            fails.append(("fallback-lookup-wrong-value", "call %d (aliases in lookup order %r, arguments %s) %s; the recording "
                          "holds %s for it; entries [version, call] = %r" %
                          (ci, names[ci], json.dumps(calls[ci], ensure_ascii=False)[:300], what, exp, lk["rec"])))
            break
    return fails


def direct(case, obs):
    if "driver_exception" in obs:
        return [("driver", obs["driver_exception"])]
    fails = []
    key = obs["key"]
    setty = any(has_set(x) for x in case["args"]) or any(has_set(v) for _, v in case["kwargs"])
    # (i) same key in interpreters started with other hash seeds
    for k, a in enumerate(obs.get("alt", [])):
        if a is None or a.get("key") != key:
            fails.append(("F06-set-order" if setty else "hash-seed-dependent",
                          "key differs under PYTHONHASHSEED=%s: %r vs %r" % (ALT_ENVS[k]["PYTHONHASHSEED"], key, a and a.get("key"))))
            break
    if "dec_err" in obs:
        fails.append(("decorator-raises", obs["dec_err"]))
    elif "dec_saved" in obs and obs["dec_key"] != key:
        fails.append(("decorator-key-differs", "key stored by the decorator %r differs from the key builder's %r" %
                      (obs["dec_key"], key)))
    # (i') ... and is the key the same call is looked up under when that recording is played: it receives what the
    # intercepted function returned / raised, whatever that function did to its arguments
    if obs.get("dec_saved") and obs.get("dec_key") is not None:
        want = ["raised", "CustomError"] if (case.get("body") or {}).get("raise") else ["value", "R"]
        if obs.get("dec_nkeys") != 1:
            fails.append(("decorator-key-differs", "one intercepted call left %r input keys in its recording" %
                          (obs.get("dec_nkeys"),)))
        if obs.get("replay") != want or obs.get("replay_live") != 0:
            fails.append(("replay-misses-own-call", "the call made again with equal arguments while playing its own recording "
                          "got %r (live executions %r), recorded was %r; stored key %r" %
                          (obs.get("replay"), obs.get("replay_live"), want, obs.get("dec_key"))))
    cc = obs.get("conc")
    if cc is not None:
        bad = [f for f in ("rec_errors", "missing", "extra", "replay_errors", "replay_wrong") if cc.get(f)]
        if not cc.get("saved") and key is not None:
            bad.append("saved")
        if cc.get("saved") and (cc.get("replay_live") != 0 or cc.get("replay_answered") != cc.get("n_calls")):
            bad.append("replay_live/answered")
        if bad:
            fails.append(("concurrent-key-differs", "calls made by %d threads at the same time with shared argument objects "
                          "are not stored / looked up under the keys the same calls get one after the other (%s): %s" %
                          (case["conc"]["threads"], ", ".join(bad), conc_summary(cc))))
    if case.get("lookup"):
        fails += direct_lookup(case, obs.get("lookup") or {})
    for k, a in enumerate(obs.get("alt", [])):
        if a is not None and "dec_saved" in obs and a.get("dec_key") != obs.get("dec_key") and not setty:
            fails.append(("hash-seed-dependent", "decorator key differs under PYTHONHASHSEED=%s: %r vs %r" %
                          (ALT_ENVS[k]["PYTHONHASHSEED"], obs.get("dec_key"), a.get("dec_key"))))
            break
    # (i'') ... and does not depend on what this process did before: the same call after a cassette save
    for kind, k2 in (obs.get("key_after_save") or []):
        if k2 != key:
            fails.append(("key-depends-on-process-history", "the key of the same call built after this process recorded and saved "
                          "an operation on the %s cassette differs: before %r, after %r" % (kind, key, k2)))
            break
    # (ii) structurally equal calls / changed excluded arguments give the same key
    for vk in obs.get("variants", []):
        if vk != key:
            fails.append(("variant-key-differs", "structurally equal captured arguments gave another key: %r vs %r" % (key, vk)))
            break
    # (iii) no two different (alias, captured arguments) share a key; equal ones share it
    ident = captured(case)
    if key is not None and ident is not None and not setty:
        prev = _batch.setdefault(key, ident)
        if prev != ident:
            fails.append(("key-collision", "two different calls share key %r: %s vs %s" % (key, prev[:200], ident[:200])))
        prevk = _batch.setdefault("ident:" + ident, key)
        if prevk != key:
            fails.append(("same-call-two-keys", "%s has keys %r and %r" % (ident[:200], prevk, key)))
    if (ident is None) != (key is None) and not any(x["t"] == "unser" for x in case["args"]):
        fails.append(("key-failure-mismatch", "key=%r but capture selection %s" % (key, "fails" if ident is None else "succeeds")))
    return fails


def features(case):
    f = {"capture:" + ("all" if case["cap"] is None else "none" if not case["cap"] else "list"),
         "static" if case["static"] else "instance", "kwargs=%d" % len(case["kwargs"])}
    if case.get("probe"):
        f.add("probe:" + case["probe"])
    if case.get("depth"):
        f.add("nesting-depth:%d" % case["depth"])
    for kind in case.get("after_save") or []:
        f.add("key-again-after-save-on:" + kind)
    if case.get("lookup"):
        lk = case["lookup"]
        f.add("alias:" + ("resolver-formatted" if lk["resolver"] is not None else "plain"))
        f.add("fallback_aliases:%s x%d" % (lk["fb_kind"], min(len(lk["fallbacks"]), 3)))
        f.add("recorded-by:" + ("current-version" if any(v == 0 for v, _ in lk["rec"]) else "older-versions-only"))
        f.add("sibling-calls=%d" % len(lk["calls"]))
    for x in case["args"]:
        f.add("arg:" + x["t"])
    if case.get("via_decorator"):
        b = case.get("body") or {}
        f.add("body:%s%s" % (b.get("mode") or "pure", "+raise" if b.get("raise") else ""))
    return f


def nontrivial(case):
    return any(x["t"] in ("list", "tuple", "dict", "obj", "set") for x in case["args"]) or bool(case["kwargs"])


MANIFEST = dict(
    design_ref='6/C06',
    text="Coq theorems over all aliases, capture selections and tree-shaped argument values: the key text is a function of alias and captured values up to dict/attribute insertion order (deterministic_partial: sets carry their iteration order), arguments excluded from capture and kwargs order are irrelevant, keys are injective on (alias, captured values) for aliases without '=' and captured values in the domain vdom = wf (tree shaped, distinct unreserved keys, no lone surrogates) and leaves_ok (float texts in the float.__repr__ grammar, bytes < 256), given only that the quoted-printable oracle is invertible and maps byte strings to surrogate-free text (both proved for the concrete encoder: C06_key_injective_concrete has no oracle premise); nothing is assumed about json.dumps any more: its injectivity and the self-delimiting text of arrays/objects are proved on the well-formed trees jwf via a verified parser (parse_value fuel (dumps j ++ rest) = Some (j, rest)), flatten maps the value domain into jwf, and witnesses show both facts fail outside jwf; flatten/restore round-trip on the faithful domain; the set-order clause is refuted with a witness (known finding F06). Model (select, flatten, dumps, ikey) tied to /repo on every run by comparing the exact key text of _input_interception_key, and the key found in a recording made through the real decorators, with the model's; direct predicate: same call under two other PYTHONHASHSEED values gives the same key, and no two distinct (alias, captured args) share a key; the key the decorator stores is the key of the argument values AT THE CALL whatever the intercepted function then does to them (grow / drain / edit in place, raise), and the same call made again while that recording is played receives the recorded outcome without a live execution; calls made at the same time by 4 worker threads of one operation with shared argument objects are stored and looked up under exactly the keys the same calls get one after the other; the keys an interception with a resolver / fallback aliases looks up while playing are, in order, the key of the call under the formatted alias and under each fallback alias (compared with the model Recorder.Exec.input_keys, with the key builder and with the keys older versions of the input stored), and every replayed call receives what was recorded for the same captured values under the first of those aliases present - never the value of a sibling call whose arguments differ only by an alias text.",
    note='Trusted: Coq kernel + vm_compute; hand-written model of jsonpickle 0.9.3 flatten + json.dumps on the tree domain; quoted-printable for bytes is an oracle (two premises, theorems for the simple encoder); the float grammar float_repr_ok describes float.__repr__ on CPython with float_repr_style=short (validated against the interpreter, enforced on every float the harness sends); correspondence harness. One clause (sets) is a known finding, reported as KNOWN-FINDING.',
    technique='Coq proof (induction over value trees, sorting/permutation lemmas, verified JSON parser for the printer) + exact key-text correspondence by vm_compute + two-hash-seed differential run',
)
