"""C09 - the recorder returns to idle; every run is independent of history."""
from lib import recdsl as rd
from props.rec_common import *  # noqa: F401,F403
from props import race_common as rc
from props.c04 import static_gate  # noqa: F401  (atomic-region reduction of the racing-threads model)

ID = "C09"
RUN_MODULE = "RunC09"
RULE = ("one case = a history of 2-6 runs on one real recorder (successful, raising, interrupted, discarded, sampled out, "
        "save failing, replay of a missing id, replay with missing keys / key-creation errors, replay whose playback function "
        "raises) ending in a probe run that is also executed on a FRESH recorder over the same cassette and draw position; "
        "non-trivial = history of >= 2 runs; distinct = distinct history")
ASSUMPTIONS = ["the thread-local interception flag is observed on the driver thread only",
               "threads: as for C04/C05 - the methods that touch the active recording are modelled access by access "
               "(Recorder/Threads.v), a locked region being one step; the history theorems are about one thread"]
THEOREMS = ["C09_returns_to_idle", "C09_idle_throughout_history", "C09_flag_restored", "C09_history_independent", "C09_as_fresh",
            "C09_idle_after_any_interleaving"]

INTERRUPT_KINDS = ["custom", "keyboard", "sysexit", "genexit"]   # which BaseException an "interrupt" of the program is
W = dict(rd.DEFAULT_W, fault=0.25, discard=0.6, force=0.9, interrupt=0.15, raise_=0.25, enable=0.1, missing_opts=0.3)


def rand_run(rng, runs):
    recs = [r for r in runs if r["kind"] == "record"]
    if recs and rng.random() < 0.45:
        t = rng.randrange(len(recs) + 1) if rng.random() < 0.15 else rng.randrange(len(recs))
        r = rng.random()
        if r < 0.55:
            pf = {"kind": "op", "op": rd.clean(recs[min(t, len(recs) - 1)]["op"])}
        elif r < 0.85:
            pf = {"kind": "op", "op": rd.rand_opdef(rng, W, budget=8)}       # other program: missing keys
        else:
            pf = {"kind": "raises", "ty": rng.choice(rd.EXC_TYPES)}
        return dict(kind="play", target=t, pf=pf, enabled=rng.random() < 0.5)
    return dict(kind="record", enabled=rng.random() < 0.93, prm=rd.rand_prm(rng),
                op=rd.rand_opdef(rng, W, budget=rng.choice([4, 8, 14])), save_fails=rng.random() < 0.08)


def to_gallina(case, obs):     # noqa: F811
    if rc.is_race(case):
        return rc.to_gallina(case, obs)
    from props import rec_common
    t = rec_common.to_gallina(case, obs)
    return None if t is None else "H (%s)" % t


def explain(case, obs):        # noqa: F811
    if rc.is_race(case):
        return rc.explain(case, obs)
    from props import rec_common
    return "explain_case (%s)" % rec_common.to_gallina(case, obs)


_hist_features, _hist_nontrivial = features, nontrivial     # (from rec_common)


def features(case):      # noqa: F811
    return rc.features(case) if rc.is_race(case) else _hist_features(case)


def nontrivial(case):    # noqa: F811
    return True if rc.is_race(case) else _hist_nontrivial(case)


def shrink_candidates(case):     # noqa: F811
    if rc.is_race(case):
        return
    from props import rec_common
    for c in rec_common.shrink_candidates(case):
        yield c


def generate(rng, tier):
    cases = rc.race_cases(rng, tier)
    n = 220 if tier == "quick" else 3000
    for i in range(n):
        runs = []
        for _ in range(rng.randrange(2, 7)):
            runs.append(rand_run(rng, runs))
        cases.append(dict(interrupt_kind=rng.choice(INTERRUPT_KINDS), draws=rd.rand_draws(rng, 12), runs=runs, cassette="memory", probe_fresh=True))
    return cases


def strip_ords(ob):
    """Observation of a run with recording ordinals removed (a fresh recorder numbers from where the cassette is)."""
    o = dict(ob)
    o.pop("draws_used", None)
    return o


def direct(case, obs):
    if "driver_exception" in obs:
        return [("driver", obs["driver_exception"] + obs.get("trace", "")[-400:])]
    if rc.is_race(case):
        return rc.direct_idle(case, obs)
    if f07c_affected(obs):
        return []          # region of known finding F07c (reported by C01): nothing is concluded from such a case
    fails = []
    for i, ob in enumerate(obs["runs"]):
        st = ob["state"]
        if st["active"] or st["force"] or st["counter"] or st["icpt"] or \
                st["public"] != [False, False, True, False, True, True, True]:
            fails.append(("not-idle", "after run %d the recorder is not idle: %s" % (i, st)))
    fp = obs.get("fresh_probe")
    if fp is not None:
        a = obs["runs"][-1]
        for field in ("outcome", "trace", "cass", "pbouts", "recouts", "state", "draws_used"):
            if a.get(field) != fp.get(field):
                fails.append(("history-dependent", "the last run of the history differs from the same run on a fresh recorder "
                              "in '%s'" % field))
                break
    return fails


MANIFEST = dict(
    design_ref="6/C09",
    text="Coq theorems for every run kind and every way it ends: idle in => idle out (record_run_idle via the step "
         "invariant of rec_exec incl. restoration of the interception flag; play_run_idle), lifted to whole histories by "
         "induction; and history independence: a run's complete observable result from any two idle states is equal, hence "
         "equals that of a fresh recorder over the same cassette contents and draw position (the one piece of history that "
         "legitimately persists is explicit). Model tied to /repo by running random histories (all ending kinds) on one real "
         "recorder and comparing every observable incl. the recorder's private fields after each run; direct predicate: all "
         "public/private flags idle after every run, and the last run repeated on a fresh recorder over the same cassette "
         "and draw position gives the identical observation.",
    note="Trusted: Coq kernel + vm_compute, hand-written model, correspondence harness. Other threads' thread-local flags are "
         "not modelled (driver thread only).",
    technique="Coq proof (invariant + induction over histories) + differential correspondence by vm_compute + fresh-recorder "
              "differential run")
