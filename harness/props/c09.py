"""C09 - the recorder returns to idle; every run is independent of history."""
from fractions import Fraction

from lib import recdsl as rd
from props.rec_common import *  # noqa: F401,F403
from props import race_common as rc
from props import rec2_cases as r2
from props.c04 import static_gate  # noqa: F401  (atomic-region reduction of the racing-threads model)

ID = "C09"
LOG_LEVEL_INVARIANT = True      # (harness/vp.py: a sample of the cases again with logging at DEBUG; same observables)
RUN_MODULE = "RunC09"
RULE = ("one case = a history of 2-6 runs on one real recorder (successful, raising, interrupted, discarded, sampled out, "
        "save failing, replay of a missing id, replay with missing keys / key-creation errors, replay whose playback function "
        "raises) ending in a probe run that is also executed on a FRESH recorder over the same cassette and draw position; "
        "plus service-shaped histories (1-2 classes each declared once with ONE registered parameters object, mostly a "
        "fractional rate, runs forcing / not forcing sampling independently; a deterministic grid forced run -> [other class | "
        "replay] -> unforced run of the same class with the draw above the rate) and histories in which a recording written "
        "through the cassette API (copy of a recorded run with no / no clock / only user / full metadata) is replayed and the "
        "recorder is used again (implementation-side only: the clock metadata is outside the model); histories of a service "
        "one of whose classes is registered with a sampling rate that is not a number (None / text / list, as an unconverted "
        "configuration value: the end of such a run fails while comparing the draw with the rate) followed by runs of other "
        "classes, of the same class and replays (implementation-side only: idle after every run, last run as on a fresh "
        "recorder); a stored recording changed under its id through the cassette API between two replays on one recorder (key "
        "added / removed / replaced, missing-key policies, memory and file cassette; kind repatched, implementation only): the "
        "second replay equals the same replay on a fresh recorder; histories of one interpreter whose inputs get "
        "equal-but-differently-typed arguments, every replay also run in a fresh interpreter and compared; "
        "non-trivial = history of >= 2 runs; distinct = distinct history")
ASSUMPTIONS = ["the thread-local interception flag is observed on the driver thread only",
               "threads: as for C04/C05 - the methods that touch the active recording are modelled access by access "
               "(Recorder/Threads.v), a locked region being one step; the history theorems are about one thread"]
THEOREMS = ["C09_returns_to_idle", "C09_idle_throughout_history", "C09_flag_restored", "C09_history_independent", "C09_as_fresh",
            "C09_idle_after_any_interleaving"]

INTERRUPT_KINDS = ["custom", "keyboard", "sysexit", "genexit"]   # which BaseException an "interrupt" of the program is
W = dict(rd.DEFAULT_W, fault=0.25, discard=0.6, force=0.9, interrupt=0.15, raise_=0.25, enable=0.1, missing_opts=0.3)


def rand_run(rng, runs):
    recs = [r for r in runs if r["kind"] == "record"]
    if recs and rng.random() < 0.45:
        t = rng.randrange(len(recs) + 1) if rng.random() < 0.15 else rng.randrange(len(recs))
        r = rng.random()
        if r < 0.55:
            pf = {"kind": "op", "op": rd.clean(recs[min(t, len(recs) - 1)]["op"])}
        elif r < 0.85:
            pf = {"kind": "op", "op": rd.rand_opdef(rng, W, budget=8)}       # other program: missing keys
        else:
            pf = {"kind": "raises", "ty": rng.choice(rd.EXC_TYPES)}
        return dict(kind="play", target=t, pf=pf, enabled=rng.random() < 0.5)
    return dict(kind="record", enabled=rng.random() < 0.93, prm=rd.rand_prm(rng),
                op=rd.rand_opdef(rng, W, budget=rng.choice([4, 8, 14])), save_fails=rng.random() < 0.08)


TENTH = [3602879701896397, 36028797018963968]       # float(0.1) exactly
PLAIN_PRM = dict(rate=[1, 1], ignore=False, skipped=False, copy=False)


def service_history(rng, k=None):
    """A history shaped like a running service: 1-2 operation classes, each declared ONCE with ONE set of recording parameters
    (or none), mostly with a fractional sampling rate; every run of a class goes through the same decorated class, hence
    the same registered parameters object.  Runs force sampling / discard / fail independently of each other; the probe
    (last run) is usually an unforced run of a class that ran forced before, with draws above the rate."""
    classes = rng.sample(["OpA", "OpB", "Op_C"], rng.choice([1, 1, 2]))
    decl = {}
    for c in classes:
        prm = None if rng.random() < 0.12 else dict(
            rate=rng.choice([[0, 1], [1, 4], [1, 4], [1, 2], TENTH, [1, 1]]), ignore=rng.random() < 0.12,
            skipped=rng.random() < 0.03, copy=rng.random() < 0.3)
        decl[c] = dict(prm=prm, classlevel=rng.random() < 0.3,
                       extractor=rng.choice([{"kind": "none"}] * 3 + [{"kind": "dict", "d": []}, {"kind": "raises"}]))
    runs = []
    n = rng.randrange(2, 6)
    for j in range(n):
        last = j == n - 1
        c = rng.choice(classes) if not (last and runs) else rng.choice([r["op"]["cls"] for r in runs if r["kind"] == "record"])
        recs = [r for r in runs if r["kind"] == "record"]
        if recs and not last and rng.random() < 0.15:
            t = rng.randrange(len(recs))
            runs.append(dict(kind="play", target=t, pf={"kind": "op", "op": rd.clean(recs[t]["op"])}, enabled=rng.random() < 0.5))
            continue
        op = rd.rand_opdef(rng, dict(W, force=0.2, discard=0.25), budget=rng.choice([2, 4, 8]), cls=c)
        op["classlevel"] = decl[c]["classlevel"]
        op["extractor"] = rd.clean(decl[c]["extractor"])
        if rng.random() < (0.15 if last else 0.6):
            op["body"] = {"k": "force", "next": op["body"]}
        runs.append(dict(kind="record", enabled=rng.random() < 0.97, prm=rd.clean(decl[c]["prm"]), op=op,
                         save_fails=rng.random() < 0.05))
    hi = [[1023, 1024], [3, 4], [1, 1]]
    draws = [rng.choice(hi) if rng.random() < 0.7 else d for d in rd.rand_draws(rng, 12)]
    return dict(interrupt_kind=rng.choice(INTERRUPT_KINDS), draws=draws, runs=runs, cassette="memory", probe_fresh=True,
                predeclare=rng.random() < 0.3, stream="service")


def service_grid():
    """the small deterministic core of the same region: a forced run of a class with registered parameters and a sampling
    rate below 1, then an unforced run of the same class whose draw is above the rate"""
    ret = {"k": "ret", "e": {"lit": {"t": "int", "v": 1}}}
    in_force = {"k": "in", "cfg": dict(alias="load", resolver={"kind": "none"}, cap=None, static=True, property=False,
                                       handler="none", prep_discards=False, run_missing=False, vmiss={"kind": "none"},
                                       fallbacks={"kind": "none"}),
                "body": {"k": "force", "next": ret}, "args": [], "kwargs": [], "next": ret}
    for rate in ([0, 1], [1, 4], TENTH):
        for classlevel in (False, True):
            for forced_body in ({"k": "force", "next": ret}, in_force, {"k": "force", "next": {"k": "raise", "ty": "ValueError"}},
                                {"k": "force", "next": {"k": "interrupt"}}):
                for middle in ((), ("other",), ("play",)):
                    prm = dict(rate=rate, ignore=False, skipped=False, copy=False)
                    mk = lambda body, cls="OpA": dict(kind="record", enabled=True, prm=rd.clean(prm), save_fails=False,   # noqa: E731
                                                      op=dict(cls=cls, classlevel=classlevel, extractor={"kind": "none"}, body=rd.clean(body)))
                    runs = [mk(forced_body)]
                    if middle == ("other",):
                        runs.append(mk(ret, cls="OpB"))
                    elif middle == ("play",):
                        runs.append(dict(kind="play", target=0, pf={"kind": "op", "op": rd.clean(runs[0]["op"])}, enabled=True))
                    runs.append(mk(ret))
                    yield dict(interrupt_kind="custom", draws=[[1023, 1024]] * 4, runs=runs, cassette="memory", probe_fresh=True,
                               stream="service-grid")


def foreign_history(rng, meta):
    """A history in which a recording reaches the cassette through the cassette API rather than through the recorder (an
    imported / tool-written / old-format recording: a copy of a recorded run's data without, or with only part of, the
    recorder's metadata), is replayed, and the recorder is used again afterwards."""
    runs = []
    created = 0
    for _ in range(rng.choice([1, 1, 2])):
        runs.append(dict(kind="record", enabled=True, prm=dict(PLAIN_PRM), save_fails=False,
                         op=rd.rand_opdef(rng, dict(W, discard=0.1, interrupt=0.05), budget=rng.choice([3, 6, 10]))))
        created += 1
    src = rng.randrange(created) if rng.random() < 0.9 else None
    runs.append(dict(kind="import", src=src, meta=meta, cat="Imported"))
    imported = created
    created += 1
    for _ in range(rng.choice([1, 1, 2])):
        r = rng.random()
        if r < 0.7 and src is not None:
            pf = {"kind": "op", "op": rd.clean(runs[src]["op"])}
        elif r < 0.9:
            pf = {"kind": "op", "op": rd.rand_opdef(rng, W, budget=6)}
        else:
            pf = {"kind": "raises", "ty": rng.choice(rd.EXC_TYPES)}
        runs.append(dict(kind="play", target=imported, pf=pf, enabled=rng.random() < 0.5))
    for _ in range(rng.choice([1, 2])):
        runs.append(rand_run(rng, runs))
    return dict(interrupt_kind=rng.choice(INTERRUPT_KINDS), draws=rd.rand_draws(rng, 12), runs=runs, cassette="memory",
                probe_fresh=True, stream="foreign")


RAW_RATES = ["none", "str", "str-word", "list"]      # (driver: recorder_driver.rate_of)


def misconfigured_history(rng, raw, k):
    """A service one of whose operation classes is registered with a sampling rate that is not a number (a configuration key
    that is missing -> None, a value that was never converted -> text / list): the comparison of the draw with the rate
    fails when such a run ends un-forced and un-discarded.  Whatever that run does to its caller, the recorder is idle
    afterwards and the next runs - of other classes, of the same class - behave as on a fresh recorder."""
    good = dict(rate=rng.choice([[1, 1], [1, 2], [0, 1]]), ignore=False, skipped=False, copy=rng.random() < 0.3)
    bad = dict(rate=[1, 1], rate_raw=raw, ignore=rng.random() < 0.2, skipped=False, copy=rng.random() < 0.3)
    w = dict(W, force=0.15, discard=0.15, enable=0.0)
    runs = []
    n = rng.randrange(3, 6)
    for j in range(n):
        if j in (0, 2) or (j < n - 1 and rng.random() < 0.3):
            op = rd.rand_opdef(rng, w, budget=[0, 2, 6][(k + j) % 3], cls="OpM")
            op["classlevel"] = k % 2 == 1
            runs.append(dict(kind="record", enabled=True, prm=rd.clean(bad), op=op, save_fails=False))
        elif j == 3 and runs[0]["op"]:
            runs.append(dict(kind="play", target=rng.randrange(2), pf={"kind": "op", "op": rd.clean(runs[1]["op"])},
                             enabled=rng.random() < 0.5))
        else:
            runs.append(dict(kind="record", enabled=True, prm=rd.clean(good),
                             op=rd.rand_opdef(rng, w, budget=rng.choice([2, 6]), cls="OpA"), save_fails=False))
    return dict(interrupt_kind=rng.choice(INTERRUPT_KINDS), draws=rd.rand_draws(rng, 12), runs=runs, cassette="memory",
                probe_fresh=True, stream="misconfigured-rate")


def has_raw_rate(case):
    return any(r["kind"] == "record" and r["prm"] and r["prm"].get("rate_raw") for r in case.get("runs", []))


def to_gallina(case, obs):     # noqa: F811
    if r2.is_rec2(case):
        return None          # (implementation only: a stored recording rewritten through the cassette API is outside the model)
    if rc.is_race(case):
        return rc.to_gallina(case, obs)
    if has_raw_rate(case):
        return None            # a sampling rate that is not a number is outside the model (p_rate : Q): direct predicate only
    from props import rec_common
    t = rec_common.to_gallina(case, obs)
    return None if t is None else "H (%s)" % t


def explain(case, obs):        # noqa: F811
    if r2.is_rec2(case):
        return "0%nat"
    if rc.is_race(case):
        return rc.explain(case, obs)
    from props import rec_common
    return "explain_case (%s)" % rec_common.to_gallina(case, obs)


_hist_features, _hist_nontrivial = features, nontrivial     # (from rec_common)


def features(case):      # noqa: F811
    if r2.is_rec2(case):
        return r2.features(case)
    if rc.is_race(case):
        return rc.features(case)
    fs = _hist_features(case)
    if case.get("stream"):
        fs.add("stream:" + case["stream"])
    recs = [r for r in case["runs"] if r["kind"] == "record"]
    for r in recs:
        if r["prm"] and r["prm"].get("rate_raw"):
            fs.add("class-registered-with-non-numeric-sampling-rate:" + r["prm"]["rate_raw"])
    for i, r in enumerate(recs):
        if r["prm"] and Fraction(*r["prm"]["rate"]) < 1 and not rd.has_stmt(r["op"]["body"], ("force",)) and any(
                q["op"]["cls"] == r["op"]["cls"] and q["prm"] == r["prm"] and rd.has_stmt(q["op"]["body"], ("force",))
                for q in recs[:i]):
            fs.add("unforced-run-after-forced-run-of-same-class(rate<1)")
    return fs


def nontrivial(case):    # noqa: F811
    return True if rc.is_race(case) or r2.is_rec2(case) else _hist_nontrivial(case)


def shrink_candidates(case):     # noqa: F811
    if rc.is_race(case) or r2.is_rec2(case):
        return
    from props import rec_common
    for c in rec_common.shrink_candidates(case):
        yield c


def generate(rng, tier):
    cases = rc.race_cases(rng, tier)
    n = 220 if tier == "quick" else 3000
    for i in range(n):
        runs = []
        for _ in range(rng.randrange(2, 7)):
            runs.append(rand_run(rng, runs))
        cases.append(dict(interrupt_kind=rng.choice(INTERRUPT_KINDS), draws=rd.rand_draws(rng, 12), runs=runs, cassette="memory", probe_fresh=True))
    # classes declared once with one parameters object each (forcing in one run must not reach the next run of the class)
    cases += list(service_grid())
    for i in range(60 if tier == "quick" else 800):
        cases.append(service_history(rng))
    # recordings that did not come from the recorder (no / partial metadata), replayed, and the recorder used again
    for i in range(40 if tier == "quick" else 400):
        cases.append(foreign_history(rng, ["none", "no_clock", "user", "full"][i % 4]))
    # operation classes registered with a sampling rate that is not a number (implementation side only)
    for i in range(24 if tier == "quick" else 200):
        cases.append(misconfigured_history(rng, RAW_RATES[i % len(RAW_RATES)], i // len(RAW_RATES)))
    # a stored recording changed under its id between two replays on one recorder (implementation side only)
    cases += r2.repatched_cases()
    # history of the PROCESS: equal-but-differently-typed key arguments across the operations of one interpreter, every
    # replay also run in a fresh interpreter (a run without any history)
    from props.c05 import equal_arguments_history
    eq_rng = __import__("random").Random(9)
    for k in range(6 if tier == "quick" else 48):
        cases.append(equal_arguments_history(eq_rng, k * 5 if tier == "quick" else k))
    return cases


def strip_ords(ob):
    """Observation of a run with recording ordinals removed (a fresh recorder numbers from where the cassette is)."""
    o = dict(ob)
    o.pop("draws_used", None)
    return o


def direct(case, obs):
    if "driver_exception" in obs:
        return [("driver", obs["driver_exception"] + obs.get("trace", "")[-400:])]
    if rc.is_race(case):
        return rc.direct_idle(case, obs)
    if r2.is_rec2(case):
        return r2.direct_repatched(case, obs)
    if f07c_affected(obs):
        return []          # region of known finding F07c (reported by C01): nothing is concluded from such a case
    fails = []
    for i, ob in enumerate(obs["runs"]):
        fr = ob.get("fresh")
        if fr is not None and "skipped" not in fr:
            if "error" in fr:
                fails.append(("replay-in-another-interpreter-failed", "run %d: %s" % (i, fr["error"])))
            else:
                for field in ("outcome", "pbouts", "recouts"):
                    if fr.get(field) != ob.get(field):
                        fails.append(("history-dependent", "run %d: the replay inside the process that recorded the history differs "
                                      "from the same replay of the same stored recording in a fresh interpreter in '%s': %s vs %s" %
                                      (i, field, str(ob.get(field))[:160], str(fr.get(field))[:160])))
                        break
    for i, ob in enumerate(obs["runs"]):
        st = ob["state"]
        if st["active"] or st["force"] or st["counter"] or st["icpt"] or \
                st["public"] != [False, False, True, False, True, True, True]:
            fails.append(("not-idle", "after run %d the recorder is not idle: %s" % (i, st)))
    fp = obs.get("fresh_probe")
    if fp is not None:
        a = obs["runs"][-1]
        for field in ("outcome", "trace", "cass", "pbouts", "recouts", "state", "draws_used"):
            if a.get(field) != fp.get(field):
                fails.append(("history-dependent", "the last run of the history differs from the same run on a fresh recorder "
                              "in '%s'" % field))
                break
    return fails


MANIFEST = dict(
    design_ref="6/C09",
    text="Coq theorems for every run kind and every way it ends: idle in => idle out (record_run_idle via the step "
         "invariant of rec_exec incl. restoration of the interception flag; play_run_idle), lifted to whole histories by "
         "induction; and history independence: a run's complete observable result from any two idle states is equal, hence "
         "equals that of a fresh recorder over the same cassette contents and draw position (the one piece of history that "
         "legitimately persists is explicit). Model tied to /repo by running random histories (all ending kinds) on one real "
         "recorder and comparing every observable incl. the recorder's private fields after each run; direct predicate: all "
         "public/private flags idle after every run, and the last run repeated on a fresh recorder over the same cassette "
         "and draw position gives the identical observation. The histories include classes whose registered parameters object is "
         "shared by all their runs (forced then unforced runs of one class at a rate below 1) and replays of recordings that "
         "did not come from the recorder (no duration metadata: play() fails after the replay state was cleared), and classes "
         "registered with a non-numeric sampling rate (the sampling decision itself raises at the end of the run: the recorder "
         "must be idle afterwards; implementation side only).",
    note="Trusted: Coq kernel + vm_compute, hand-written model, correspondence harness. Other threads' thread-local flags are "
         "not modelled (driver thread only).",
    technique="Coq proof (invariant + induction over histories) + differential correspondence by vm_compute + fresh-recorder "
              "differential run")
