"""C03 - captured outputs are exactly what the executing code sent."""
from lib import recdsl as rd
from lib import pyvals as pv
from props.rec_common import *  # noqa: F401,F403
from props.c01 import canon_rec, canon_datum

ID = "C03"
LOG_LEVEL_INVARIANT = True      # (harness/vp.py: a sample of the cases again with logging at DEBUG; same observables)
RUN_MODULE = "RunC03"
SHARD = 40
RULE = ("one case = (recorded program P, replayed program P') where P' is P or a behavioural edit of P: changed output argument, "
        "dropped / added / duplicated / reordered output call, changed final result, raise instead of return; P makes 1-14 calls "
        "per output alias (two-digit ordinals in a fifth of the cases) over 1-3 aliases, instance and static outputs, outputs "
        "with data handlers (preparing a container, an int digest or None), positional and keyword arguments, values from the "
        "faithful domain; every (recorded ending, replayed ending) pair over {return, ValueError, RecursionError, MemoryError}; "
        "non-trivial = an edited pair or more than nine calls of an alias; distinct = distinct (P, P'); plus "
        "(implementation only, always runs) histories of operations that end in exceptions of ONE type whose instances carry "
        "different data and differ in whether they can be encoded (unencodable instance before / between / after ordinary ones, "
        "on the recording and the replaying side, a subclass, a new recorder in between, three cassettes)")
ASSUMPTIONS = ["a failing output data handler during replay silently drops the entry (handlers succeed here; faults are C04's)",
               "single-threaded operations"]
TRUSTED = ["harness-side journal of the output calls the generated code makes (trace 'begin' events outside interceptions)",
           "exception-history stream: what an exception instance carries (attributes) is outside the Coq model (an exception is "
           "its type name there): direct predicate only"]
THEOREMS = ["C03_okey_injective", "C03_playback_outputs_exact", "C03_recorded_outputs_exact", "C03_entry_is_nth_call",
            "C03_diff_localised", "C03_key_kinds_disjoint"]

PRM = dict(rate=[1, 1], ignore=False, skipped=False, copy=False)
ALIASES = ["send", "db.write", "out#1", "é"]


def ocfg(alias, static, handler):
    return dict(alias=alias, static=static, handler=handler, fail=False, default=pv.none())


def out_stmt(rng, alias, static, handler):
    args = [{"lit": pv.rand_pyval(rng, 2, objs=False)} for _ in range(rng.randrange(0, 3))]
    kwargs = [[k, {"lit": pv.rand_pyval(rng, 1, objs=False)}] for k in rng.sample(["a", "b", "é"], rng.randrange(0, 2))]
    return dict(k="out", cfg=ocfg(alias, static, handler), body={"k": "ret", "e": {"lit": pv.i(rng.randrange(100))}},
                args=args, kwargs=kwargs)


def in_stmt(rng, i):
    cf = dict(alias="load", resolver={"kind": "none"}, cap=None, static=True, property=False, handler="none",
              prep_discards=False, run_missing=False, vmiss={"kind": "none"}, fallbacks={"kind": "none"})
    return dict(k="in", cfg=cf, body={"k": "ret", "e": {"lit": pv.i(i)}}, args=[{"lit": pv.i(i)}], kwargs=[])


def assemble(stmts, term):
    c = term
    for st in reversed(stmts):
        n = dict(st)
        if n.pop("raises", False):
            # the wrapped function raises, the operation handles it and goes on:  try: out(...)  except: <rest>
            n["body"] = {"k": "raise", "ty": "ValueError"}
            n["cfg"] = dict(n["cfg"], fail=True)      # an added call of it has no recorded outcome: missing-key error, handled too
            n["next"] = {"k": "ret", "e": {"lit": pv.none()}}
            c = {"k": "try", "c": n, "h": c}
        elif n.pop("thread", False):
            # the call is made by a worker thread that the operation starts and joins at this point
            n["next"] = {"k": "ret", "e": {"lit": pv.none()}}
            c = {"k": "spawn", "c": n, "next": c}
        else:
            n["next"] = c
            c = n
    return dict(cls="OpA", classlevel=False, extractor={"kind": "none"}, body=c)


def with_extractor(rng, op):
    """a metadata extractor that itself goes through an intercepted output: nothing it sends belongs to the recording"""
    if rng.random() < 0.25:
        op = dict(op, extractor={"kind": "calls_out", "n": rng.randrange(1, 3), "d": [["tenant", pv.s("t1")]]})
    return op


def rand_program(rng):
    naliases = rng.choice([1, 2, 3])
    aliases = rng.sample(ALIASES, naliases)
    # (what an output data handler prepares is opaque: a container, but also a digest of the call - an int - or nothing - None)
    kinds = {a: (rng.random() < 0.5, rng.choice(["none", "none", "wrap", "wrap", "count", "null"])) for a in aliases}
    big = rng.random() < 0.2
    stmts = []
    for a in aliases:
        for _ in range(rng.randrange(10, 15) if big and a == aliases[0] else rng.randrange(1, 5)):
            stmts.append(out_stmt(rng, a, *kinds[a]))
    rng.shuffle(stmts)
    for i in range(rng.randrange(0, 3)):
        stmts.insert(rng.randrange(len(stmts) + 1), in_stmt(rng, i))
    # calls whose wrapped function raises (the operation handles it and goes on) use an alias of their own: every recorded
    # outcome of that alias is an exception, so dropping / duplicating such a call never turns a raise into a return
    for _ in range(rng.choice([0, 0, 1, 2])):
        st = out_stmt(rng, "boom", rng.random() < 0.5, "none")
        st["raises"] = True
        stmts.insert(rng.randrange(len(stmts) + 1), st)
    if rng.random() < 0.3:
        # some of the output calls are made from worker threads (started and joined by the operation, one at a time)
        for st in stmts:
            if st["k"] == "out" and not st.get("raises") and rng.random() < 0.4:
                st["thread"] = True
    if rng.random() < 0.2:
        # forced sampling requested part-way through the operation (matters when the sampling rate is below 1)
        stmts.insert(rng.randrange(1, len(stmts) + 1), {"k": "force"})
    term = {"k": "ret", "e": {"lit": pv.rand_pyval(rng, 1, objs=False)}} if rng.random() < 0.8 else {"k": "raise", "ty": "ValueError"}
    return stmts, term, kinds


def edit(rng, stmts, term, kinds):
    stmts = [rd.clean(s) for s in stmts]
    term = rd.clean(term)
    outs = [i for i, s in enumerate(stmts) if s["k"] == "out"]
    kind = rng.choice(["arg", "drop", "add", "dup", "swap", "result", "raise", "kwarg", "discard", "discard"])
    if kind == "arg" and outs:
        s = stmts[rng.choice(outs)]
        if s["args"]:
            s["args"][rng.randrange(len(s["args"]))] = {"lit": pv.s("EDITED")}
        else:
            s["args"] = [{"lit": pv.s("EDITED")}]
    elif kind == "kwarg" and outs:
        s = stmts[rng.choice(outs)]
        s["kwargs"] = [["zz", {"lit": pv.i(-1)}]] + s["kwargs"]
    elif kind == "drop" and outs:
        del stmts[rng.choice(outs)]
    elif kind == "add":
        a = rng.choice(list(kinds))
        stmts.insert(rng.randrange(len(stmts) + 1), out_stmt(rng, a, *kinds[a]))
    elif kind == "dup" and outs:
        i = rng.choice(outs)
        stmts.insert(i, rd.clean(stmts[i]))
    elif kind == "swap" and len(outs) >= 2:
        i, j = rng.sample(outs, 2)
        stmts[i], stmts[j] = stmts[j], stmts[i]
    elif kind == "discard":
        # the REPLAYED code asks for the recording to be discarded on its way (there is none while replaying): it sends
        # exactly what it sent before, so nothing may differ
        stmts.insert(rng.randrange(len(stmts) + 1), {"k": "discard"})
    elif kind == "result":
        term = {"k": "ret", "e": {"lit": pv.s("OTHER RESULT")}}
    elif kind == "raise":
        term = {"k": "raise", "ty": "KeyError"}
    return stmts, term, kind


def generate(rng, tier):
    cases = []
    n = 220 if tier == "quick" else 3000
    for i in range(n):
        stmts, term, kinds = rand_program(rng)
        P = assemble(stmts, term)
        if rng.random() < 0.25:
            Pp, kind = rd.clean(P), "unchanged"
        else:
            s2, t2, kind = edit(rng, stmts, term, kinds)
            Pp = assemble(s2, t2)
        P = with_extractor(rng, P)
        prm, draws = PRM, []
        if any(st["k"] == "force" for st in stmts):
            # the draw alone would drop the recording: it is kept only because sampling was forced on the way
            prm, draws = dict(PRM, rate=rng.choice([[0, 1], [1, 4], [1, 1]])), [[1, 2]] * 6
        runs = [dict(kind="record", enabled=True, prm=prm, op=P, save_fails=False)]
        if rng.random() < 0.3:
            # first a replay of code that makes an ADDED output call whose result must not be invented: it aborts with
            # RecordingKeyError after some outputs were already captured; the next replay must be unaffected
            s3 = [rd.clean(x) for x in stmts]
            a = rng.choice(list(kinds))
            extra = out_stmt(rng, a, *kinds[a])
            extra["cfg"]["fail"] = True
            s3.append(extra)
            runs.append(dict(kind="play", target=0, pf={"kind": "op", "op": assemble(s3, rd.clean(term))}, enabled=False,
                             aborting=True))
        runs.append(dict(kind="play", target=0, pf={"kind": "op", "op": Pp}, enabled=rng.random() < 0.5))
        cases.append(dict(draws=draws, runs=runs, cassette="memory", edit=kind, unshare=True))
    cases += exhaustion_cases()
    cases += exc_history_cases()
    return cases


def exhaustion_cases():
    """Round 7: the operation's outcome entry exists for EVERY way the operation ends - a returned value or a raised exception
    of any type, in particular the resource-exhaustion errors RecursionError / MemoryError (ordinary Exception subclasses that
    an environment with a smaller stack / less memory raises on unchanged code) next to ValueError: every (recorded ending,
    replayed ending) pair, one or two output calls before the end, three cassettes.  Deterministic; model + direct."""
    ends = [None, "ValueError", "RecursionError", "MemoryError"]
    out = []
    k = 0
    for a in ends:
        for b_ in ends:
            if a is None and b_ is None:
                continue

            def prog(ty):
                stmts = [dict(k="out", cfg=ocfg("send", bool(k % 2), "none"), body={"k": "ret", "e": {"lit": pv.i(1)}},
                              args=[{"lit": pv.i(7 + j)}], kwargs=[]) for j in range(1 + k % 2)]
                term = {"k": "ret", "e": {"lit": pv.s("done")}} if ty is None else {"k": "raise", "ty": ty}
                return assemble(stmts, term)
            runs = [dict(kind="record", enabled=True, prm=PRM, op=prog(a), save_fails=False),
                    dict(kind="play", target=0, pf={"kind": "op", "op": prog(b_)}, enabled=bool(k % 3 == 0)),
                    dict(kind="play", target=0, pf={"kind": "op", "op": prog(a)}, enabled=False)]
            out.append(dict(draws=[], runs=runs, cassette=["memory", "file", "s3"][k % 3], edit="ending:%s->%s" % (a, b_), unshare=True))
            k += 1
    return out


# ---- the operation entry for a RAISED exception, over histories of exceptions of one type (implementation only) -------------
# The DSL's `raise ty` raises an exception without data, and every case used types whose instances either always or never
# encode.  What an exception carries beyond its message (attributes) is part of "the raised exception" the entry stands for,
# and whether an INSTANCE can be encoded is a property of that instance.
_V1 = {"kind": "value", "v": pv.dct([("code", pv.i(1))])}
_V2 = {"kind": "value", "v": pv.dct([("code", pv.i(2))])}
_V3 = {"kind": "value", "v": pv.lst([pv.s("row"), pv.tup([pv.i(1), pv.i(2)])])}
_UNSER, _DEEP = {"kind": "unser"}, {"kind": "deep"}


def exc_history_cases():
    """histories (one recorder unless stated, one interpreter) of operations ending in T(payload): each step is recorded and then
    replayed with T(payload'); an unencodable instance (payload holding something the serializer refuses / nested too deep)
    before, between and after ordinary ones, on the recording and on the replaying side, T and a subclass of T, a new recorder
    in between; deterministic, the same cases in both tiers."""
    T, U = "PayloadError", "OtherPayloadError"
    st = lambda ty, a, b, **kw: dict(ty=ty, rec=a, play=b, **kw)      # noqa: E731
    hist = [
        [st(T, _V1, _V2), st(T, _V1, _V1), st(T, _V3, _V1)],
        [st(T, _UNSER, _UNSER), st(T, _V1, _V2), st(T, _V2, _V2)],
        [st(T, _DEEP, _DEEP), st(T, _V1, _V1), st(T, _V1, _V3)],
        [st(T, _V1, _V2), st(T, _UNSER, _V1), st(T, _V1, _V2)],
        [st(T, _V1, _UNSER), st(T, _V1, _V2)],
        [st(U, _UNSER, _UNSER), st(T, _V1, _V2), st(U, _V2, _V1)],
        [st(T, _UNSER, _DEEP), st(U, _V1, _V2), st(T, _V3, _V3, new_recorder=True), st(T, _V1, _V2)],
        [st(T, _V2, _V2), st(T, _DEEP, _UNSER, new_recorder=True), st(T, _V2, _V3, new_recorder=True)],
    ]
    return [dict(kind="exc_history", cassette=["memory", "file", "s3"][(k + j) % 3], steps=h)
            for k, h in enumerate(hist) for j in range(2)]


def _want_entry(ty, p):
    if p["kind"] == "value":
        return {"form": "exception", "ty": ty, "attrs": [["payload", pv.canon_json(p["v"])]]}
    return {"form": "reduced", "ty": ty}


def direct_exc_history(case, obs):
    """the entry for the operation's raised exception IS that exception - its type and what the instance carries - whenever the
    instance can be encoded (the documented reduced form {error_type, error_repr} otherwise), on the recorded and on the
    playback side, whatever was raised earlier in the process; the two entries differ exactly if what was raised differs."""
    fails = []
    for i, (st, ob) in enumerate(zip(case["steps"], obs["steps"])):
        where = "step %d of a history of %s (%s cassette)" % (i, [s["ty"] + ":" + s["rec"]["kind"] + "/" + s["play"]["kind"]
                                                                 for s in case["steps"][:i + 1]], case["cassette"])
        if not ob.get("saved"):
            fails.append(("exception-run-not-recorded", "%s: the record run ended with %s and nothing was saved" % (where, ob.get("record_outcome"))))
            continue
        if ob.get("play_outcome") != {"o": "val", "v": {"t": "none"}}:
            fails.append(("replay-failed", "%s: play() ended with %s" % (where, ob.get("play_outcome"))))
            continue
        for side, p, got in (("recorded", st["rec"], ob["rec_entry"]), ("playback", st["play"], ob["play_entry"])):
            want = _want_entry(st["ty"], p)
            g = {k: v for k, v in got.items() if k in want}
            if g != want:
                fails.append(("operation-entry-is-not-the-raised-exception", "%s: the operation raised %s(payload %s); the %s outputs' "
                              "operation entry is %s" % (where, st["ty"], json_short(p), side, json_short(got))))
        same_raised = st["rec"] == st["play"]
        same_entry = ob["rec_entry"] == ob["play_entry"]
        if st["rec"]["kind"] == "value" and st["play"]["kind"] == "value" and same_raised != same_entry:
            fails.append(("diff-not-localised", "%s: recorded program raised %s, replayed program raised %s, the operation entries %s" %
                          (where, json_short(st["rec"]), json_short(st["play"]), "are equal" if same_entry else "differ")))
    return fails


def json_short(x):
    import json
    return json.dumps(x, sort_keys=True, default=str)[:200]


def captured_form(handler, args, kwargs):
    if handler == "wrap":
        return {"d": "data", "v": {"t": "dict", "v": sorted([["a", {"t": "list", "v": args}], ["k", {"t": "dict", "v": kwargs}]])}}
    if handler == "count":
        return {"d": "data", "v": pv.i(len(args) + 10 * len(kwargs))}
    if handler == "null":
        return {"d": "data", "v": pv.none()}
    return {"d": "out", "args": args, "kwargs": kwargs}


def expected_outputs(op, outcome):
    """What the program sends, from the program text alone: per-alias ordinal -> captured form."""
    exp = {}
    cnt = {}
    c = op["body"]
    while True:
        if c["k"] == "try":
            inner = c["c"]            # one call whose wrapped function raises; the rest of the program is the handler
            if inner["k"] == "out":
                al = inner["cfg"]["alias"]
                cnt[al] = cnt.get(al, 0) + 1
                args = [pv.canon_json(e["lit"]) for e in inner["args"]]
                kwargs = sorted([k, pv.canon_json(e["lit"])] for k, e in inner["kwargs"])
                d = captured_form(inner["cfg"]["handler"], args, kwargs)
                exp["output: %s #%d.output" % (al, cnt[al])] = d
            c = c["h"]
            continue
        o = c["c"] if c["k"] == "spawn" else c           # (a worker thread making one output call)
        if o["k"] == "out":
            c_, c = c, o
            al = c["cfg"]["alias"]
            cnt[al] = cnt.get(al, 0) + 1
            args = [pv.canon_json(e["lit"]) for e in c["args"]]
            kwargs = sorted([k, pv.canon_json(e["lit"])] for k, e in c["kwargs"])
            d = captured_form(c["cfg"]["handler"], args, kwargs)
            exp["output: %s #%d.output" % (al, cnt[al])] = d
            c = c_
        if "next" not in c:
            break
        c = c["next"]
    if c["k"] == "ret":
        exp["output: _tape_recorder_operation #1.output"] = {"d": "out", "args": [pv.canon_json(c["e"]["lit"])], "kwargs": []}
    else:
        exp["output: _tape_recorder_operation #1.output"] = {"d": "opexn", "ty": c["ty"]}
    return exp


def direct(case, obs):
    if "driver_exception" in obs:
        return [("driver", obs["driver_exception"] + obs.get("trace", "")[-400:])]
    if case.get("kind") == "exc_history":
        return direct_exc_history(case, obs)
    if f07c_affected(obs):
        return []          # region of known finding F07c (reported by C01): nothing is concluded from such a case
    fails = []
    if len(case["runs"]) < 2 or case["runs"][0]["kind"] != "record":
        return fails
    rec_run = case["runs"][0]
    exp_rec = expected_outputs(rec_run["op"], None)
    for i, (run, pob) in enumerate(zip(case["runs"], obs["runs"])):
        if run["kind"] != "play":
            continue
        if run.get("aborting"):
            if pob["outcome"] != {"o": "exn", "e": "KeyMissing"}:
                fails.append(("replay-should-abort", "run %d: a replay that asks for a result that was never recorded ended "
                              "with %s" % (i, pob["outcome"])))
            continue
        if pob["outcome"] != {"o": "val", "v": {"t": "none"}}:
            fails.append(("replay-failed", "run %d: play() ended with %s" % (i, pob["outcome"])))
            continue
        exp_play = expected_outputs(run["pf"]["op"], None)
        got_rec = dict(canon_rec(pob["recouts"]))
        got_play = dict(canon_rec(pob["pbouts"]))
        if len(pob["pbouts"]) != len(got_play) or len(pob["recouts"]) != len(got_rec):
            fails.append(("duplicate-entries", "run %d: an output key occurs twice" % i))
        if got_rec != exp_rec:
            diff = sorted(k for k in set(got_rec) | set(exp_rec) if got_rec.get(k) != exp_rec.get(k))
            fails.append(("recorded-outputs-wrong", "run %d: recorded outputs differ from what the recorded program sent at %s" %
                          (i, diff[:4])))
        if got_play != exp_play:
            diff = sorted(k for k in set(got_play) | set(exp_play) if got_play.get(k) != exp_play.get(k))
            fails.append(("playback-outputs-wrong", "run %d: playback outputs differ from what the replayed program sent at %s" %
                          (i, diff[:4])))
        want_diff = sorted(k for k in set(exp_rec) | set(exp_play) if exp_rec.get(k) != exp_play.get(k))
        got_diff = sorted(k for k in set(got_rec) | set(got_play) if got_rec.get(k) != got_play.get(k))
        if want_diff != got_diff:
            fails.append(("diff-not-localised", "run %d, edit '%s': recorded vs playback outputs differ at %s, the programs differ at %s" %
                          (i, case.get("edit"), got_diff[:5], want_diff[:5])))
    return fails


def nontrivial(case):
    if case.get("kind") == "exc_history":
        return True
    return case.get("edit") != "unchanged" or any(n["k"] == "out" for n in rd.walk(case["runs"][0]["op"]["body"]))


# ---- exc_history cases are implementation only: the hooks of rec_common apply to history cases --------------------------------
_h_to_gallina, _h_explain, _h_features, _h_shrink = to_gallina, explain, features, shrink_candidates  # noqa: F405


def to_gallina(case, obs):  # noqa: F811
    return None if case.get("kind") == "exc_history" else _h_to_gallina(case, obs)


def explain(case, obs):  # noqa: F811
    return "tt" if case.get("kind") == "exc_history" else _h_explain(case, obs)


def features(case):  # noqa: F811
    if case.get("kind") != "exc_history":
        fs = _h_features(case)
        if str(case.get("edit", "")).startswith("ending:"):
            fs.add("operation-" + case["edit"])
        return fs
    fs = {"probe:exception-history", "cassette:" + case["cassette"], "exc-history-steps:%d" % len(case["steps"])}
    seen_bad = False
    for st in case["steps"]:
        bad = st["rec"]["kind"] != "value" or st["play"]["kind"] != "value"
        if seen_bad and not bad:
            fs.add("exc-history:encodable-instance-after-unencodable-instance-of-the-type")
        seen_bad = seen_bad or bad
        fs |= {"exc-payload:" + st["rec"]["kind"], "exc-payload:" + st["play"]["kind"]}
        if st.get("new_recorder"):
            fs.add("exc-history:new-recorder-in-between")
    return fs


def shrink_candidates(case):  # noqa: F811
    if case.get("kind") == "exc_history":
        st = case["steps"]
        return [dict(case, steps=st[:i] + st[i + 1:]) for i in range(len(st))] if len(st) > 1 else []
    return _h_shrink(case)


MANIFEST = dict(
    design_ref="6/C03",
    text="Coq theorems: for every program, recording and counter the outputs captured while replaying are exactly the calls "
         "that reached an intercepting output decorator, numbered per alias from 1 (play_exec_numbered); while recording - any "
         "program, recorder state and faults, as long as the recording is not discarded - the '.output' entries written are "
         "exactly those calls, numbered per alias (rec_exec_numbered); keys identify (alias, ordinal) (okey_output_injective, "
         "decimal ordinals of any length); the numbered list read as a map gives at (alias, n) the n-th call of that alias "
         "(number_lookup), hence two runs' outputs differ at exactly the entries whose n-th calls differ "
         "(outputs_diff_localised); output, result and input entries never collide. Tie: (P, P') pairs with every edit kind "
         "and up to 14 calls per alias on the real recorder, recorded and playback outputs compared with the model. Direct "
         "predicate: both maps equal what the program text sends (harness-side), and their diff is exactly at the edited "
         "entries. Round 6: output handlers whose prepared value is an int / None (model + direct); the operation entry of a raised "
         "exception is that exception - type and attributes - whenever the instance encodes, whatever was raised before (direct).",
    note="Trusted: Coq kernel + vm_compute, hand-written model, correspondence harness, harness-side expectation from the "
         "program text. A failing output handler during replay drops the entry (stated limit).",
    technique="Coq proof (structural induction with per-alias counter algebra; string injectivity of the key format) + "
              "differential correspondence by vm_compute on edited program pairs")


__import__("props.alias_probes", fromlist=["install"]).install(globals(), "C03")     # probe stream "alias" (implementation only)
