"""Shared pieces of the recorder property modules (C01-C05, C09, C17, C18)."""
from lib import recdsl as rd

DRIVER = "recorder_driver.py"
SHARD = 60


def f07c_affected(obs):
    """Did a cassette hand back something else than what was saved (observed round trip of that very recording)?  That is
    the serializer's shared-reference defect, known finding F07c (listed for C01): whatever is replayed from such a
    recording is outside the tree-shaped value domain of the model."""
    return any(c.get("fetch_ok") is False for ob in obs.get("runs", []) for c in ob.get("cass", []))


def to_gallina(case, obs):
    if f07c_affected(obs):
        return None
    if "driver_exception" in obs:
        return "Case [] [] [mk_obs OInt [] [] [] [] fresh_rst]"     # forces a mismatch
    if any(r["kind"] == "import" for r in case["runs"]):
        # a recording written through the cassette API, without the recorder's (clock) metadata: the two clock values are
        # outside the model, so such a history is implementation-side only (direct predicate)
        return None
    return rd.g_case(case, obs)


def explain(case, obs):
    t = to_gallina(case, obs)
    return "0%nat" if t is None else "explain_case (%s)" % t


def features(case):
    fs = set()
    if case.get("unshare"):
        fs.add("values-passed-as-copies")
    for r in case["runs"]:
        if r["kind"] == "import":
            fs.add("run:import:" + r.get("meta", "none"))
        elif r["kind"] == "record":
            fs.add("run:record")
            fs |= rd.features_of_code(r["op"]["body"])
            if not r["enabled"]:
                fs.add("recording-disabled")
            if r["prm"] is None:
                fs.add("class-without-registered-parameters")
            elif r["prm"]["skipped"]:
                fs.add("class-skipped")
            if r["op"].get("base"):
                b = r["op"]["base"]
                fs.add("derived-class:base-%s:%s" % ("with-parameters" if b.get("prm") else "plain",
                                                     "inherited-operation" if b.get("inherits_op") else "own-operation"))
            if r.get("save_fails"):
                fs.add("save-fails")
            fs.add("extractor:" + r["op"]["extractor"]["kind"])
            if r["op"]["classlevel"]:
                fs.add("class-level-operation")
        else:
            fs.add("run:play:" + r["pf"]["kind"])
    fs.add("cassette:" + case.get("cassette", "memory"))
    fs.add("runs:%d" % min(len(case["runs"]), 9))
    return fs


def nontrivial(case):
    return any(r["kind"] == "record" and rd.size(r["op"]["body"]) > 2 for r in case["runs"]) or \
        any(r["kind"] == "play" for r in case["runs"])


def shrink_candidates(case):
    runs = case["runs"]
    if len(runs) > 1:
        for i in range(len(runs)):
            if runs[i]["kind"] in ("record", "import") and any(r["kind"] in ("play", "import") for r in runs[i + 1:]):
                continue      # (later replays / imports refer to recordings by creation ordinal)
            yield dict(case, runs=runs[:i] + runs[i + 1:])
