"""C15 - S3 cassette writes are confined: read-only, own prefix, complete-before-visible."""
import datetime
import json

from lib import pyvals as pv
from lib.gallina import gstr, gbool, glist, gpair, gopt, gnat, gbytes

ID = "C15"
LOG_LEVEL_INVARIANT = True      # (harness/vp.py: a sample of the cases again with logging at DEBUG; same observables)
RUN_MODULE = "RunC15"
DRIVER = "s3conf_driver.py"
SHARD = 60
RULE = ("one case = a history of create / hand-made recording / save (optionally interrupted after its n-th bucket "
        "mutation) / get / get_metadata / list / abort_recording (of a fresh, saved, hand-made or FETCHED recording; stream "
        "aborts + 4 fixed-aborts, one per read_only x transient combination) / close / context-exit calls on 2-4 real S3TapeCassettes (every "
        "combination of read_only, transient, key prefix from '', a, ab, a/b, a/full, non-ASCII; optional "
        "infrequent-access threshold and sampling calculator) sharing one fake bucket with foreign objects and residues "
        "of interrupted saves; every uninterrupted save is also crash-probed at each of its mutation boundaries on a "
        "snapshot; streams: main, readonly, nested (a/full inside a), long (a writable transient cassette - sometimes with a "
        "second writer on its prefix - holds 4-10 recordings, i.e. more than one listing page of the fake client API, when "
        "it is closed), slashes (key prefixes, categories and hand-made ids that begin with '/', are '/', hold '//', end "
        "in '/' or are empty, next to foreign objects at the places such keys would escape to), exits (every cassette of the "
        "case is closed or left as a context manager at the end, the `with` block being left normally, through an Exception "
        "raised by its body or through an interrupt that is not an Exception), 14 fixed scenarios + 16 fixed-exits (every "
        "read_only x transient combination x close() / block left normally / through an Exception / through an interrupt, "
        "on a prefix that holds recordings of a writer); "
        "non-trivial = at least one bucket mutation and at least one of: read-only call, close of a "
        "transient cassette, interrupted save; distinct = distinct case")
ASSUMPTIONS = ["assertions enabled (no python -O): the read-only guard is an assert statement",
               "uuid1().hex and datetime.today() are replaced by deterministic fakes (ids are then comparable texts)",
               "S3 put_object/delete are atomic per object; a crash is modelled as the bucket refusing the n-th mutation",
               "zlib is the identity in the model run (bodies are never compared, only keys and outcome kinds)"]
TRUSTED = ["fake bucket behind the real S3BasicFacade (harness/impl/fake_s3.py): mutation log, crash injection; resource "
           "collections walk every page; the client API (list_objects_v2 / list_objects / paginators / delete_objects / "
           "delete_object) answers listings in pages of 3 keys with IsTruncated + continuation token (S3 may answer fewer "
           "keys than MaxKeys), deletes at most 1000 keys per request and logs one mutation per deleted object",
           "harness-side mirror of which create calls succeed (to know recording ids in advance); a wrong mirror only "
           "lowers coverage, the created ids themselves are compared with the model"]

ROOT = "tape_recorder_recordings/"
BASE = datetime.datetime(2020, 2, 27, 12, 0, 0)
PREFIXES = ["", "a", "ab", "a/b", "a", "ab", "", "é x", "a/full"]
CATS = ["Op", "OpX", "Other"]
HAND_IDS = ["Op/20200227/h1", "Op/x", "weird", "Op/20200227/a/b", "Other/d/é", "OpX/20200228/h2", "Op//x"]
FOREIGN = ["other/x", "tape_recorder_recordings_old/full/Op/1", ROOT + "zz/full/Op/20200227/f",
           ROOT + "zz/metadata/Op/20200227/f", ROOT + "abc", ROOT + "afull/Op/20200227/g",
           ROOT + "ametadata/Op/20200227/g", ROOT + "a", "tape_recorder_recordings"]
RATIOS = [[0, 1], [1, 2], [1, 1], [3, 2], [1, 4]]
# stream "slashes": key prefixes / categories / hand-made ids that begin with '/', are '/' only, hold '//' inside, end in
# '/' or are empty (the category is free text of the recorder's user, e.g. the route of a web handler): the S3 keys are
# plain string concatenations, none of these may move a key out of <root><prefix>/ or make full and metadata keys meet
SLASH_PREFIXES = ["/abs", "a//b", "/", "abs", "", "a/", "//", "/abs"]
SLASH_CATS = ["/api/v1/plans", "a//b", "", "Op", "/", "/abs"]
SLASH_HAND_IDS = ["/abs/20200227/h3", "//x/y/z", "/", "/full/20200227/h4", "Op/20200227//h5"]
SLASH_FOREIGN = ["/api/v1/plans/20200227/x", "/abs/full/Op/20200227/f", "abs/full/Op/20200227/f", "/", "//x/y/z",
                 "/abs/metadata/Op/20200227/f", "full/Op/20200227/f", "tape_recorder_recordings/x"]
# stream "long": one writable transient cassette holds more recordings than ONE LISTING PAGE of the fake bucket's client
# API when it is closed (harness/impl/fake_s3.py PAGE_SIZE = 3: S3 may answer any listing with fewer keys than asked for
# and IsTruncated, so clean-up code has to follow the continuation whatever the page size is)
FAKE_PAGE_SIZE = 3
# how a `with cassette:` block is left: normally (None), through an Exception raised by the body ("error"), through an
# exception that is not an Exception subclass, like KeyboardInterrupt ("interrupt")
EXIT_MODES = [None, "error", "interrupt"]
LONG_COUNTS = [FAKE_PAGE_SIZE + 1, FAKE_PAGE_SIZE + 2, 2 * FAKE_PAGE_SIZE, 2 * FAKE_PAGE_SIZE + 1, 3 * FAKE_PAGE_SIZE + 1]


def norm(p):
    return (p + "/") if p else ""


def small_val(rng):
    return rng.choice([pv.i(1), pv.s("v"), pv.lst([pv.i(1), pv.s("x")]), pv.tup([pv.i(2)]), pv.none(),
                       pv.dct([("n", pv.i(3))]), pv.s("long " * 30), pv.b(True)])


def gen_case(rng, tier, stream):
    ncas = rng.randrange(2, 5)
    pool = PREFIXES if stream != "nested" else ["a", "a/full", "a/metadata", "a"]
    cats, hand_ids, foreign = CATS, HAND_IDS, FOREIGN
    if stream == "slashes":
        pool, cats, hand_ids, foreign = SLASH_PREFIXES, SLASH_CATS, HAND_IDS[:3] + SLASH_HAND_IDS, FOREIGN[:5] + SLASH_FOREIGN
    cass = []
    for _ in range(ncas):
        cass.append(dict(prefix=rng.choice(pool), read_only=rng.random() < 0.35, transient=rng.random() < 0.5,
                         ia=rng.choice([None, None, 0.001, 0.06, 50]), calc=rng.random() < 0.25))
    if all(c["read_only"] for c in cass):
        cass[0]["read_only"] = False
    if stream == "readonly":
        cass[0]["read_only"] = False
        for c in cass[1:]:
            c["read_only"] = True
    if stream == "long":
        cass[0].update(read_only=False, transient=True, calc=False)
    # several views of one prefix (writer + read-only reader + transient closer) are the interesting ones
    if rng.random() < 0.6:
        cass.append(dict(cass[0], read_only=True, transient=rng.random() < 0.5))
    if rng.random() < 0.4:
        cass.append(dict(cass[0], read_only=False, transient=True, ia=None, calc=False))
    ops = []
    for k in rng.sample(foreign, rng.randrange(2, 6)):
        ops.append(dict(op="raw_put", key=k, body="foreign %s" % k))
    slots = {}       # slot -> id (mirror)
    nuuid = 0
    saved = []       # (cas index, id) believed to be in the bucket
    known_ids = list(hand_ids[:2])
    n_ops = rng.randrange(6, 16 if tier == "quick" else 24)
    if stream == "long":
        # the transient cassette (and sometimes a second writer on its prefix) fills more than one listing page
        writers = [0] + [i for i, x in enumerate(cass) if i and not x["read_only"] and x["prefix"] == cass[0]["prefix"]]
        for _ in range(rng.choice(LONG_COUNTS)):
            slot = len(slots)
            ci = rng.choice(writers) if rng.random() < 0.3 else 0
            if rng.random() < 0.8:
                cat, day = rng.choice(cats), rng.choice([0, 0, 1])
                ops.append(dict(op="create", cas=ci, slot=slot, cat=cat, day=day, data=[["k", small_val(rng)]],
                                meta=[["m", small_val(rng)]] if rng.random() < 0.7 else []))
                nuuid += 1
                rid = "%s/%s/%032x" % (cat, (BASE + datetime.timedelta(days=day)).strftime("%Y%m%d"), nuuid)
            else:
                rid = "Op/20200227/long%d" % slot
                ops.append(dict(op="mk", slot=slot, id=rid, data=[["k", small_val(rng)]], meta=[["m", small_val(rng)]]))
            slots[slot] = rid
            known_ids.append(rid)
            ops.append(dict(op="save", cas=ci, slot=slot, ratio=rng.choice(RATIOS) if cass[ci]["calc"] else None, crash=None))
            saved.append((ci, rid))
        n_ops = rng.randrange(0, 6)
    for _ in range(n_ops):
        r = rng.random()
        ci = rng.randrange(len(cass))
        c = cass[ci]
        if r < 0.20:
            cat = rng.choice(cats)
            day = rng.choice([0, 0, 1, 3])
            slot = len(slots) if rng.random() < 0.8 or not slots else rng.choice(list(slots))
            op = dict(op="create", cas=ci, slot=slot, cat=cat, day=day,
                      data=[[k, small_val(rng)] for k in rng.sample(["k", "k2", "input: x", "_metadata"], rng.randrange(0, 3))
                            if k != "_metadata" or stream == "reserved"],
                      meta=[[k, small_val(rng)] for k in rng.sample(["m", "dur", "cls"], rng.randrange(0, 3))])
            ops.append(op)
            if not c["read_only"]:
                nuuid += 1
                rid = "%s/%s/%032x" % (cat, (BASE + datetime.timedelta(days=day)).strftime("%Y%m%d"), nuuid)
                slots[slot] = rid
                known_ids.append(rid)
        elif r < 0.27:
            rid = rng.choice(hand_ids)
            slot = len(slots)
            ops.append(dict(op="mk", slot=slot, id=rid, data=[["k", small_val(rng)]],
                            meta=[["m", small_val(rng)]] if rng.random() < 0.7 else []))
            slots[slot] = rid
            known_ids.append(rid)
        elif r < 0.55 and slots:
            # saves go mostly through writable cassettes
            if c["read_only"] and rng.random() < 0.6:
                w = [i for i, x in enumerate(cass) if not x["read_only"]]
                ci = rng.choice(w)
                c = cass[ci]
            slot = rng.choice(list(slots))
            op = dict(op="save", cas=ci, slot=slot, ratio=rng.choice(RATIOS) if c["calc"] else None,
                      crash=rng.choice([0, 1, 1]) if rng.random() < 0.2 else None)
            ops.append(op)
            if not c["read_only"]:
                saved.append((ci, slots[slot]))
                if stream == "aborts":
                    op["_id"] = slots[slot]
        elif r < 0.70:
            rid = rng.choice(known_ids) if rng.random() < 0.85 else "Op/20200227/unknown"
            ops.append(dict(op=rng.choice(["get", "get_meta", "get_meta"]), cas=ci, id=rid))
        elif r < 0.78:
            ops.append(dict(op="list", cas=ci, cat=rng.choice(cats)))
        elif r < 0.90:
            ops.append(dict(op=rng.choice(["close", "exit"]), cas=ci))
        elif r < 0.95 and saved:
            # a foreign deletion of a metadata object = the residue of a save interrupted between its two puts
            sc, rid = rng.choice(saved)
            ops.append(dict(op="raw_del", key=ROOT + norm(cass[sc]["prefix"]) + "metadata/" + rid))
        else:
            k = rng.choice(foreign)
            ops.append(dict(op="raw_put", key=k, body="foreign again"))
    if stream == "long":
        ops.append(dict(op=rng.choice(["close", "exit"]), cas=0))
    if stream == "exits":
        # every cassette of the case is closed / left as a context manager at the end, in a random order; a `with` block is
        # left normally or through an exception raised by its body (EXIT_MODES); the exits drawn above likewise
        for o in ops:
            if o["op"] == "exit":
                o["raises"] = rng.choice(EXIT_MODES)
        order = list(range(len(cass)))
        rng.shuffle(order)
        for ci in order:
            if rng.random() < 0.25:
                ops.append(dict(op="close", cas=ci))
            else:
                ops.append(dict(op="exit", cas=ci, raises=rng.choice(EXIT_MODES)))
            if rng.random() < 0.4:
                ops.append(dict(op="list", cas=rng.randrange(len(cass)), cat=rng.choice(cats)))
    # the ids of residues are "known from elsewhere": read them through every read-only view at the end
    for ci, c in enumerate(cass):
        if c["read_only"] and saved and rng.random() < 0.8:
            sc, rid = rng.choice(saved)
            ops.append(dict(op="get_meta", cas=ci, id=rid))
            ops.append(dict(op="get", cas=ci, id=rid))
    return dict(cassettes=cass, ops=ops, categories=cats, stream=stream)


def add_aborts(rng, case):
    """stream "aborts": abort_recording calls (public cassette API: "done with this recording, do not save it") spread
    over a generated history - on recordings just created, already saved, hand-made (possibly under an id that is stored)
    and FETCHED through get_recording (an open recording that carries a stored id), through read-only and writable
    cassettes alike.  Aborting stores nothing and removes nothing."""
    ops, out = case["ops"], []
    ncas = len(case["cassettes"])
    ro = [i for i, c in enumerate(case["cassettes"]) if c["read_only"]]
    have, stored, nf = [], [], 0

    def pick_cas():
        return rng.choice(ro) if ro and rng.random() < 0.6 else rng.randrange(ncas)
    for op in ops:
        out.append(op)
        if op["op"] in ("create", "mk"):
            have.append(op["slot"])
        if op["op"] == "save" and op.get("crash") is None and not case["cassettes"][op["cas"]]["read_only"]:
            stored.append((op["cas"], op.get("_id")))
        r = rng.random()
        if r < 0.18 and have:
            out.append(dict(op="abort", cas=pick_cas(), slot=rng.choice(have)))
        elif r < 0.40 and any(i for _, i in stored):
            wc, rid = rng.choice([x for x in stored if x[1]])
            # fetched through a cassette on the same prefix as its writer (else there is nothing to fetch), aborted through
            # the same or any other cassette
            views = [i for i, c in enumerate(case["cassettes"]) if c["prefix"] == case["cassettes"][wc]["prefix"]]
            g = rng.choice([v for v in views if v in ro] or views)
            slot = "f%d" % nf
            nf += 1
            out.append(dict(op="get", cas=g, id=rid, keep=slot))
            out.append(dict(op="abort", cas=g if rng.random() < 0.7 else pick_cas(), slot=slot))
            have.append(slot)
            if rng.random() < 0.5:
                out.append(dict(op=rng.choice(["get", "get_meta", "list"]), cas=rng.choice(views), id=rid, cat=rid.split("/")[0]))
        elif r < 0.48 and any(i for _, i in stored):
            # a hand-made recording object under the id of a stored recording
            slot = "f%d" % nf
            nf += 1
            out.append(dict(op="mk", slot=slot, id=rng.choice([x for x in stored if x[1]])[1], data=[], meta=[]))
            out.append(dict(op="abort", cas=pick_cas(), slot=slot))
    for op in out:
        op.pop("_id", None)
    return dict(case, ops=out, stream="aborts")


def fixed_aborts(ro, tr, k):
    """a writer stores two recordings under prefix p (one more under a neighbour prefix); then a cassette on p in the
    read_only / transient combination (ro, tr) aborts: a recording fetched from itself, a hand-made recording under a stored
    id, a recording fetched through the writer, a saved (closed) recording, a fresh never-saved one (for a writable
    cassette: one it created itself) - the stored recordings are read back through a reader after each"""
    p, p2 = [("a", "ab"), ("", "a"), ("a/b", "a"), ("ab", "a")][k % 4]
    cass = [W(p, False), W(p2, False), W(p, tr, read_only=ro), W(p, False, read_only=True)]
    id1, id2, id3 = ("Op/20200227/%032x" % 1, "OpX/20200228/%032x" % 2, "Op/20200227/%032x" % 3)
    look = [dict(op="list", cas=3, cat="Op"), dict(op="get", cas=3, id=id1)]
    ops = [dict(op="raw_put", key=key, body="foreign") for key in FOREIGN]
    ops += [dict(op="create", cas=0, slot=0, cat="Op", day=0, data=[["k", pv.i(1)]], meta=[["m", pv.i(2)]]),
            dict(op="save", cas=0, slot=0, ratio=None, crash=None),
            dict(op="create", cas=0, slot=1, cat="OpX", day=1, data=[["k", pv.s("x")]], meta=[]),
            dict(op="save", cas=0, slot=1, ratio=None, crash=None),
            dict(op="create", cas=1, slot=2, cat="Op", day=0, data=[["k", pv.i(3)]], meta=[["m", pv.i(4)]]),
            dict(op="save", cas=1, slot=2, ratio=None, crash=None),
            dict(op="abort", cas=2, slot=0)] + look + [                     # saved = closed
            dict(op="get", cas=2, id=id1, keep="f0"), dict(op="abort", cas=2, slot="f0")] + look + [
            dict(op="mk", slot=5, id=id2, data=[], meta=[]), dict(op="abort", cas=2, slot=5),
            dict(op="get_meta", cas=3, id=id2), dict(op="get", cas=0, id=id2, keep="f1"),
            dict(op="abort", cas=2, slot="f1"), dict(op="get", cas=3, id=id2),
            dict(op="get", cas=1, id=id3, keep="f2"), dict(op="abort", cas=2, slot="f2"),        # id of the neighbour prefix
            dict(op="get", cas=1, id=id3),
            dict(op="create", cas=2 if not ro else 0, slot=6, cat="Op", day=0, data=[["k", pv.i(5)]], meta=[]),
            dict(op="abort", cas=2, slot=6), dict(op="abort", cas=2, slot="f0"), dict(op="save", cas=0, slot=6, ratio=None, crash=None)] + look
    return dict(cassettes=cass, ops=ops, categories=CATS, stream="fixed-aborts")


def W(prefix, transient, **kw):
    return dict(dict(prefix=prefix, read_only=False, transient=transient, ia=None, calc=False), **kw)


def fixed_long(n, p, p2, closing):
    """n recordings (more than one listing page) on a writable transient cassette, two on a neighbour, then close"""
    cass = [W(p, True), W(p2, False), W(p, True, read_only=True), W(p, False, ia=0.001)]
    ops = [dict(op="raw_put", key=k, body="foreign") for k in FOREIGN]
    for i in range(n):
        w = 3 if i == 1 else 0            # one of them is written by another (non-transient) cassette on the same prefix
        if i == 2:
            ops.append(dict(op="mk", slot=i, id="OpX/20200228/long", data=[["k", pv.i(i)]], meta=[["m", pv.i(i)]]))
        else:
            ops.append(dict(op="create", cas=w, slot=i, cat=CATS[i % 2], day=i % 2, data=[["k", pv.i(i)]], meta=[["m", pv.i(i)]]))
        ops.append(dict(op="save", cas=w, slot=i, ratio=None, crash=None))
    for i in (n, n + 1):
        ops.append(dict(op="create", cas=1, slot=i, cat="Op", day=0, data=[["k", pv.s("n")]], meta=[]))
        ops.append(dict(op="save", cas=1, slot=i, ratio=None, crash=None))
    ops += [dict(op="list", cas=2, cat="Op"), dict(op="close", cas=2), dict(op="close", cas=3),
            dict(op=closing, cas=0), dict(op="list", cas=2, cat="Op"), dict(op="list", cas=1, cat="Op"),
            dict(op="get", cas=2, id="Op/20200227/%032x" % 1), dict(op="get", cas=1, id="Op/20200227/%032x" % n),
            dict(op=closing, cas=0)]
    return dict(cassettes=cass, ops=ops, categories=CATS, stream="fixed-long")


def fixed_slashes(p, cat, p2):
    """a category / key prefix with leading, doubled or only slashes on a transient cassette next to a neighbour"""
    day = BASE.strftime("%Y%m%d")
    cass = [W(p, True), W(p2, False), W(p, False, read_only=True), W(p, False, calc=True)]
    ops = [dict(op="raw_put", key=k, body="foreign") for k in FOREIGN[:4] + SLASH_FOREIGN]
    ops += [dict(op="create", cas=0, slot=0, cat=cat, day=0, data=[["k", pv.i(1)]], meta=[["m", pv.i(2)]]),
            dict(op="save", cas=0, slot=0, ratio=None, crash=None),
            dict(op="create", cas=0, slot=1, cat="Op", day=0, data=[["k", pv.i(3)]], meta=[]),
            dict(op="save", cas=0, slot=1, ratio=None, crash=None),
            dict(op="create", cas=1, slot=2, cat=cat, day=0, data=[["k", pv.i(4)]], meta=[["m", pv.i(5)]]),
            dict(op="save", cas=1, slot=2, ratio=None, crash=None),
            dict(op="create", cas=3, slot=3, cat=cat, day=1, data=[], meta=[["m", pv.i(6)]]),
            dict(op="save", cas=3, slot=3, ratio=[1, 1], crash=None),
            dict(op="save", cas=3, slot=0, ratio=[1, 2], crash=1),
            dict(op="list", cas=2, cat=cat), dict(op="list", cas=1, cat=cat),
            dict(op="get", cas=2, id="%s/%s/%032x" % (cat, day, 1)),
            dict(op="get_meta", cas=2, id="%s/%s/%032x" % (cat, day, 1)),
            dict(op="get", cas=1, id="%s/%s/%032x" % (cat, day, 3)),
            dict(op="exit", cas=0), dict(op="list", cas=2, cat=cat),
            dict(op="get", cas=2, id="%s/%s/%032x" % (cat, day, 1)),
            dict(op="get", cas=1, id="%s/%s/%032x" % (cat, day, 3))]
    return dict(cassettes=cass, ops=ops, categories=sorted(set(["Op", cat])), stream="fixed-slashes")


def fixed_exits(ro, tr, how, k):
    """a writer stores two recordings under prefix p (one more under a neighbour prefix), then a cassette on p in the
    read_only / transient combination (ro, tr) is closed (how = "close") or used as a context manager whose block is left
    normally (None), through an Exception ("error") or through a non-Exception interrupt ("interrupt"); twice"""
    p, p2 = [("a", "ab"), ("", "a"), ("a/b", "a"), ("ab", "a")][k % 4]
    cass = [W(p, False), W(p2, False), W(p, tr, read_only=ro), W(p, False, read_only=True)]
    leave = dict(op="close", cas=2) if how == "close" else dict(op="exit", cas=2, raises=how)
    ops = [dict(op="raw_put", key=key, body="foreign") for key in FOREIGN]
    ops += [dict(op="create", cas=0, slot=0, cat="Op", day=0, data=[["k", pv.i(1)]], meta=[["m", pv.i(2)]]),
            dict(op="save", cas=0, slot=0, ratio=None, crash=None),
            dict(op="create", cas=0, slot=1, cat="OpX", day=1, data=[["k", pv.s("x")]], meta=[]),
            dict(op="save", cas=0, slot=1, ratio=None, crash=None),
            dict(op="create", cas=1, slot=2, cat="Op", day=0, data=[["k", pv.i(3)]], meta=[["m", pv.i(4)]]),
            dict(op="save", cas=1, slot=2, ratio=None, crash=None),
            dict(op="list", cas=2, cat="Op"), dict(leave),
            dict(op="list", cas=3, cat="Op"), dict(op="get", cas=3, id="Op/20200227/%032x" % 1),
            dict(op="get", cas=1, id="Op/20200227/%032x" % 3), dict(leave), dict(op="list", cas=1, cat="Op")]
    return dict(cassettes=cass, ops=ops, categories=CATS, stream="fixed-exits")


def generate(rng, tier):
    n = 260 if tier == "quick" else 2600
    cases = []
    for k in range(n):
        stream = "main"
        if k % 10 == 7:
            stream = "readonly"
        elif k % 25 == 3:
            stream = "nested"
        cases.append(gen_case(rng, tier, stream))
    # fixed scenario: residue of an interrupted save read through a read-only view; prefixes a / ab; transient close
    for p1, p2 in (("a", "ab"), ("", "a"), ("a/b", "a"), ("ab", "a")):
        cass = [dict(prefix=p1, read_only=False, transient=True, ia=None, calc=False),
                dict(prefix=p2, read_only=False, transient=False, ia=0.001, calc=False),
                dict(prefix=p1, read_only=True, transient=True, ia=None, calc=False),
                dict(prefix=p2, read_only=True, transient=False, ia=None, calc=False)]
        ops = [dict(op="raw_put", key=k, body="foreign") for k in FOREIGN]
        ops += [dict(op="create", cas=0, slot=0, cat="Op", day=0, data=[["k", pv.i(1)]], meta=[["m", pv.i(2)]]),
                dict(op="create", cas=1, slot=1, cat="Op", day=0, data=[["k", pv.s("x" * 200)]], meta=[["m", pv.i(3)]]),
                dict(op="save", cas=0, slot=0, ratio=None, crash=None),
                dict(op="save", cas=1, slot=1, ratio=None, crash=None),
                dict(op="save", cas=1, slot=0, ratio=None, crash=1),
                dict(op="get_meta", cas=3, id="Op/20200227/%032x" % 1),
                dict(op="get", cas=3, id="Op/20200227/%032x" % 1),
                dict(op="list", cas=2, cat="Op"),
                dict(op="close", cas=2), dict(op="exit", cas=3), dict(op="close", cas=1),
                dict(op="save", cas=1, slot=1, ratio=None, crash=None),
                dict(op="exit", cas=0),
                dict(op="get", cas=2, id="Op/20200227/%032x" % 1),
                dict(op="get", cas=3, id="Op/20200227/%032x" % 2)]
        cases.append(dict(cassettes=cass, ops=ops, categories=CATS, stream="fixed"))
    # deterministic probes (always run): long histories on a transient cassette; slashes in categories / key prefixes
    for n, p, p2, closing in ((FAKE_PAGE_SIZE + 1, "a", "ab", "close"), (2 * FAKE_PAGE_SIZE + 1, "", "a", "exit"),
                              (3 * FAKE_PAGE_SIZE, "a/b", "a", "close")):
        cases.append(fixed_long(n, p, p2, closing))
    for p, cat, p2 in (("svc", "/api/v1/plans", "nb"), ("/abs", "Op", "abs"), ("a//b", "a//b", "a"), ("", "/x", "/"),
                       ("svc", "", "sv"), ("/", "/", "//"), ("a/", "Op//", "a")):
        cases.append(fixed_slashes(p, cat, p2))
    # every read_only / transient combination x every way of closing (close(), `with` block left normally / through an
    # Exception / through a non-Exception interrupt)
    k = 0
    for ro in (True, False):
        for tr in (True, False):
            for how in ["close"] + EXIT_MODES:
                cases.append(fixed_exits(ro, tr, how, k))
                k += 1
    # separate generators: the main streams above draw the same cases as before these streams existed
    rng_long, rng_slash = (__import__("random").Random(rng.getrandbits(64)) for _ in range(2))
    for _ in range(12 if tier == "quick" else 120):
        cases.append(gen_case(rng_long, tier, "long"))
    for _ in range(24 if tier == "quick" else 240):
        cases.append(gen_case(rng_slash, tier, "slashes"))
    rng_exit = __import__("random").Random(rng.getrandbits(64))
    for k in range(30 if tier == "quick" else 300):
        cases.append(gen_case(rng_exit, tier, "exits"))
    # round 7: abort_recording joins the call vocabulary (own generator: the streams above stay what they were)
    rng_abort = __import__("random").Random(rng.getrandbits(64))
    k = 0
    for ro in (True, False):
        for tr in (True, False):
            cases.append(fixed_aborts(ro, tr, k))
            k += 1
    for k in range(30 if tier == "quick" else 300):
        cases.append(add_aborts(rng_abort, gen_case(rng_abort, tier, "aborts")))
    return cases


# ---------------------------------------------------------------------------------------------
def gcfg(c):
    return "(Cfg %s %s %s)" % (gstr(c["prefix"]), gbool(c["read_only"]), gbool(c["transient"]))


def gitems(items):
    return glist([gpair(gstr(k), pv.to_pyval(v)) for k, v in items])


EXN = {"AssertionError", "NoSuchRecording", "EncodeError", "DecodeError", "ShapeError", "InjectedCrash"}


class KeyNames(object):
    """The bucket keys of a case are listed again after every call: each distinct key text is bound once per case
    (`let k3 := U "..." in`) and referred to by name (parsing a string literal is what the elaboration of a shard spends
    its time on)."""
    def __init__(self):
        self.names = {}

    def __call__(self, key):
        if key not in self.names:
            self.names[key] = "k%d" % len(self.names)
        return self.names[key]

    def wrap(self, term):
        lets = "".join("let %s := %s in " % (n, gstr(k)) for k, n in self.names.items())
        return "(%s%s)" % (lets, term) if lets else term


def gmut(e, kn=gstr):
    return "(%s %s)" % ("MPut" if e[0] == "put" else "MDel", kn(e[1]))


def gobs(o, kn=gstr):
    res = o["res"]
    unknown = res != "ok" and res not in EXN
    return "(Obs %s %s %s %s %s)" % (
        gbool(unknown), "None" if res == "ok" or unknown else "(Some %s)" % res,
        gopt(gstr(o["id"]) if "id" in o else None), glist([gmut(e, kn) for e in o["log"]]),
        glist([kn(k) for k, _ in o["objs"]]))


def gq(fr):
    return "(Qmake (%d)%%Z %d%%positive)" % (fr[0], fr[1])


def to_gallina(case, obs):
    if "driver_exception" in obs:
        return "Case [] [(RCall 0%nat CClose, Obs true None None [] [])]"
    slots = {}
    terms = []
    kn = KeyNames()
    for op, o in zip(case["ops"], obs["ops"]):
        kind = op["op"]
        if kind == "raw_put":
            t = "RRawPut %s %s" % (gstr(op["key"]), gbytes(op["body"].encode("utf-8")))
        elif kind == "raw_del":
            t = "RRawDel %s" % gstr(op["key"])
        elif kind == "create":
            day = (BASE + datetime.timedelta(days=op["day"])).strftime("%Y%m%d")
            # uuid text: what the fake uuid1 answers next (taken from the observed id when the call succeeded)
            uu = o["id"].rsplit("/", 1)[1] if "id" in o else "0" * 32
            t = "RCall %s (CCreate %s %s %s)" % (gnat(op["cas"]), gstr(op["cat"]), gstr(day), gstr(uu))
            if "id" in o:
                slots[op["slot"]] = dict(id=o["id"], data=op["data"], meta=op["meta"])
        elif kind == "mk":
            t = "RSkip"
            slots[op["slot"]] = dict(id=op["id"], data=op["data"], meta=op["meta"])
        elif kind == "save":
            s = slots.get(op["slot"])
            if s is None:
                t = "RSkip"
            else:
                rec = "(Rec %s %s %s %s)" % (gstr(s["id"]), gbool(bool(o.get("closed_before"))), gitems(s["data"]),
                                            gitems(s["meta"]))
                if op.get("ratio") is None:
                    samp = "NoCalc"
                else:
                    samp = "(Calc %s %s)" % (gq(op["ratio"]), gq(o["draw"]) if o.get("draw") else gq([0, 1]))
                if op.get("crash") is None:
                    t = "RCall %s (CSave %s %s)" % (gnat(op["cas"]), rec, samp)
                else:
                    t = "RCall %s (CSaveCrash %s %s %s)" % (gnat(op["cas"]), rec, samp, gnat(op["crash"]))
        elif kind == "get":
            t = "RCall %s (CGet %s)" % (gnat(op["cas"]), gstr(op["id"]))
        elif kind == "abort":
            # TapeCassette.abort_recording closes the recording object and does nothing else (tape_cassette.py:52-59): for
            # the bucket model it is no step at all - same keys, empty log, returns normally
            t = "RSkip"
        elif kind == "get_meta":
            t = "RCall %s (CGetMeta %s)" % (gnat(op["cas"]), gstr(op["id"]))
        elif kind == "list":
            t = "RCall %s (CList %s)" % (gnat(op["cas"]), gstr(op["cat"]))
        elif kind == "close":
            t = "RCall %s CClose" % gnat(op["cas"])
        elif kind == "exit":
            t = "RCall %s CExit" % gnat(op["cas"])
        else:
            raise ValueError(kind)
        if o["res"] == "no-slot":
            t = "RSkip"
            o = dict(o, res="ok")
        terms.append("(%s, %s)" % (t, gobs(o, kn)))
    return kn.wrap("Case %s %s" % (glist([gcfg(c) for c in case["cassettes"]]), glist(terms)))


def explain(case, obs):
    return "model_obs (%s)" % to_gallina(case, obs)


# ---------------------------------------------------------------------------------------------
def direct(case, obs):
    if "driver_exception" in obs:
        return [("driver", obs["driver_exception"])]
    fails = []
    cass = case["cassettes"]
    prev = {}
    put_by = {}     # cassette index -> keys it has put
    for n, (op, o) in enumerate(zip(case["ops"], obs["ops"])):
        cur = dict((k, c) for k, c in o["objs"])
        kind = op["op"]
        if kind in ("raw_put", "raw_del", "mk"):
            prev = cur
            continue
        c = cass[op["cas"]]
        own = ROOT + norm(c["prefix"])
        how = " (with block left through an exception of its body: %s)" % op["raises"] if op.get("raises") else ""
        where = "op #%d %s%s on cassette %s" % (n, kind, how, json.dumps(c, sort_keys=True))
        if o["res"].startswith("other:"):
            fails.append(("unexpected-exception", "%s raised %s %s" % (where, o["res"], o.get("msg"))))
        # (1) read-only cassettes never mutate, and refuse create / save
        if c["read_only"]:
            if o["log"] or cur != prev:
                fails.append(("readonly-mutates", "%s: read-only cassette mutated the bucket: %s" % (where, o["log"][:4])))
            if kind in ("create", "save") and o["res"] not in ("AssertionError", "no-slot"):
                fails.append(("readonly-accepts-write", "%s: outcome %s instead of AssertionError" % (where, o["res"])))
        # (2) every mutated key is under the cassette's own prefix
        for e in o["log"]:
            if not e[1].startswith(own):
                fails.append(("write-outside-own-prefix", "%s: %s %r is not under %r" % (where, e[0], e[1], own)))
        # (3) nothing outside the own prefix changes (also not unlogged)
        for k in set(prev) | set(cur):
            if not k.startswith(own) and prev.get(k) != cur.get(k):
                fails.append(("foreign-object-changed", "%s: object %r outside %r changed" % (where, k, own)))
                break
        for e in o["log"]:
            if e[0] == "put":
                put_by.setdefault(op["cas"], set()).add(e[1])
        # (4) close / context exit
        if kind in ("close", "exit"):
            if c["read_only"] or not c["transient"]:
                if o["log"] or cur != prev:
                    fails.append(("close-mutates", "%s: closing a %s cassette changed the bucket: %s" % (
                        where, "read-only" if c["read_only"] else "non-transient", o["log"][:4])))
            elif o["res"] == "ok":
                left = sorted(k for k in put_by.get(op["cas"], ()) if k in cur)
                if left:
                    fails.append(("own-recording-survives-close", "%s: keys written by this cassette remain: %s" % (where, left[:4])))
                left = sorted(k for k in cur if k.startswith(own + "full/") or k.startswith(own + "metadata/"))
                if left:
                    fails.append(("own-recording-survives-close", "%s: recordings under the own prefix remain: %s" % (where, left[:4])))
                gone = sorted(k for k in prev if k not in cur)
                bad = [k for k in gone if not (k.startswith(own + "full/") or k.startswith(own + "metadata/"))]
                if bad:
                    fails.append(("close-deletes-foreign", "%s: deleted keys that are not its recordings: %s" % (where, bad[:4])))
        # (5) crash points of this save: everything lookup discovers is completely fetchable
        for p in o.get("probe", []):
            if p["fails"]:
                fails.append(("discoverable-not-fetchable",
                              "%s interrupted after %d bucket mutation(s): lookup lists a recording that cannot be fetched: %s"
                              % (where, p["muts"], p["fails"][:3])))
            if p["probe_mutations"]:
                fails.append(("readonly-mutates", "%s: lookup/fetch through a fresh read-only cassette made %d mutation(s)"
                              % (where, p["probe_mutations"])))
        if kind == "save" and op.get("crash") is not None and o["res"] == "ok" and o["log"]:
            pass
        prev = cur
    fp = obs["final_probe"]
    if fp["fails"]:
        fails.append(("discoverable-not-fetchable", "at the end of the history (after interrupted saves): %s" % fp["fails"][:3]))
    if fp["probe_mutations"]:
        fails.append(("readonly-mutates", "final lookup/fetch through fresh read-only cassettes made %d mutation(s)" % fp["probe_mutations"]))
    return fails


def features(case):
    f = set()
    f.add("stream:" + case.get("stream", "?"))
    for c in case["cassettes"]:
        f.add("cfg:ro=%d,tr=%d" % (c["read_only"], c["transient"]))
        f.add("prefix:" + repr(c["prefix"]))
        if c.get("ia") is not None:
            f.add("infrequent-access-threshold")
        if c.get("calc"):
            f.add("sampling-calculator")
    ps = sorted(set(norm(c["prefix"]) for c in case["cassettes"]))
    if any(a != b and b.startswith(a[:-1]) and not b.startswith(a) for a in ps for b in ps if a):
        f.add("string-prefix-but-not-path-prefix (a vs ab)")
    for op in case["ops"]:
        f.add("op:" + op["op"])
        if op["op"] == "save" and op.get("crash") is not None:
            f.add("interrupted-save:n=%d" % op["crash"])
        if op["op"] == "raw_del":
            f.add("residue (full without metadata)")
        if op["op"] in ("close", "exit"):
            c = case["cassettes"][op["cas"]]
            f.add("close:ro=%d,tr=%d" % (c["read_only"], c["transient"]))
            if op.get("raises"):
                f.add("with-block-left-through-%s:ro=%d,tr=%d" % (op["raises"], c["read_only"], c["transient"]))
    return f


def nontrivial(case):
    ops = case["ops"]
    has_save = any(o["op"] == "save" and not case["cassettes"][o["cas"]]["read_only"] for o in ops)
    other = any((o["op"] in ("close", "exit") and case["cassettes"][o["cas"]]["transient"]) or
                (o["op"] == "save" and o.get("crash") is not None) or
                ("cas" in o and case["cassettes"][o["cas"]]["read_only"]) for o in ops)
    return has_save and other


def shrink_candidates(case):
    ops = case["ops"]
    for i in range(len(ops) - 1, -1, -1):
        if ops[i]["op"] not in ("create", "mk"):
            yield dict(case, ops=ops[:i] + ops[i + 1:])
    for i in range(len(ops) - 1, -1, -1):
        if ops[i]["op"] in ("create", "mk") and not any(o.get("slot") == ops[i]["slot"] for o in ops[i + 1:] if o["op"] == "save"):
            yield dict(case, ops=ops[:i] + ops[i + 1:])


def search_harder(rng, bad_cases):
    return [gen_case(rng, "thorough", "main") for _ in range(150)]


MANIFEST = dict(
    design_ref='6/C15',
    text="Coq theorems over all histories of calls (create, save incl. a crash after each single bucket mutation, get, get_metadata, list, close, context exit - on the implementation side normal and through an exception of the block's body, the same call in the model) on any number of S3 cassettes (all read_only/transient/prefix combinations) sharing one bucket: read-only cassettes never change bucket or log and refuse create/save; every mutated key lies under root+normalised prefix and nothing outside changes; closing a writable transient cassette removes every key it ever wrote and only keys under its full/ and metadata/ prefixes, leaving cassettes with path-independent prefixes (a vs ab) untouched, other closes are no-ops; after every single mutation of every save every metadata object has a decodable full object (discoverable => fetchable), incl. re-saves. Model tied to /repo on every run: random histories on real S3TapeCassettes over a fake bucket (paging client API) with foreign objects and crash residues, incl. transient cassettes holding several listing pages of recordings when closed and slash-shaped prefixes / categories, comparing outcome kind, mutation log and key set after every call; direct predicate on the implementation's own log/keys plus lookup+fetch through a fresh cassette at every crash point of every save. abort_recording (public cassette API outside the property's list of calls) is part of the histories: on recordings just created, saved, hand-made under a stored id and fetched through get_recording, through read-only and writable cassettes - for the model it is no bucket step (the base class only closes the recording object), the direct predicate applies the read-only / own-prefix clauses to it like to any call.",
    note='Trusted: Coq kernel + vm_compute; hand-written model; fake bucket behind the real S3BasicFacade (atomic per-object mutations, crash = refused mutation); zlib/json.loads/quoted-printable are section oracles with round-trip hypotheses (json.loads o json.dumps = id asked on well-formed trees only; all of them theorems for the concrete parser / simple codec / identity zlib: C15_discoverable_complete_concrete has no oracle premise); assertions enabled. Lookup itself is modelled only as a read (C10 owns it).',
    technique='Coq proof (induction over histories, bucket invariants) + history correspondence by vm_compute + crash-point probing',
)
