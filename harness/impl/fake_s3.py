"""In-memory stand-in for boto3 placed behind the REAL S3BasicFacade (module attribute
`s3_basic_facade.boto3`).  Key-ordered listing like S3, tz-aware last_modified taken from the
fake clock, a mutation log, optional crash injection after the n-th mutation."""
import datetime
import threading
import time
import types

import pytz


class NoSuchKey(Exception):
    pass


class InjectedCrash(Exception):
    pass


class Clock(object):
    """Shared fake clock: naive UTC datetime."""
    def __init__(self):
        self.now = datetime.datetime(2020, 2, 27, 0, 0, 0)

    def set(self, dt):
        self.now = dt


CLOCK = Clock()


class FakeDateTime(datetime.datetime):
    """Substituted for `s3_tape_cassette.datetime` (process clock in UTC: today() == utcnow())."""
    @classmethod
    def today(cls):
        return CLOCK.now

    @classmethod
    def utcnow(cls):
        return CLOCK.now

    @classmethod
    def now(cls, tz=None):
        return CLOCK.now if tz is None else pytz.utc.localize(CLOCK.now).astimezone(tz)


class _Body(object):
    def __init__(self, b):
        self.b = b

    def read(self):
        return self.b


class _Obj(object):
    def __init__(self, store, key):
        self.store = store
        self.key = key

    @property
    def last_modified(self):
        return self.store.data[self.key][1]

    def get(self):
        self.store.reads.append(self.key)
        return {'Body': _Body(self.store.data[self.key][0])}


class _Coll(object):
    def __init__(self, store, prefix):
        self.store = store
        self.prefix = prefix or ''

    def __iter__(self):
        self.store.lists.append(self.prefix)
        return iter([_Obj(self.store, k) for k in sorted(self.store.data) if k.startswith(self.prefix)])

    def delete(self):
        for k in [k for k in sorted(self.store.data) if k.startswith(self.prefix)]:
            self.store.mutate(('delete', k))
            del self.store.data[k]


class _Objects(object):
    def __init__(self, store):
        self.store = store

    def filter(self, Prefix=None):
        return _Coll(self.store, Prefix)


class Store(object):
    def __init__(self):
        self.data = {}       # key -> (bytes, last_modified aware datetime, storage class)
        self.log = []        # mutation log
        self.reads = []
        self.lists = []
        self.crash_after = None   # raise InjectedCrash instead of performing mutation number crash_after (0-based)
        self.offthread_arrivals = 0
        self.inflight = 0
        self._arrival_lock = threading.Lock()

    def mutate(self, entry):
        # Adversarial ordering of CONCURRENT mutations: S3 gives no order to requests in flight at the same time, so
        # mutations issued from helper threads (never the case on the unchanged tree) land in REVERSE order of issue.
        if threading.current_thread() is not threading.main_thread():
            with self._arrival_lock:
                if self.inflight == 0:
                    self.offthread_arrivals = 0         # a new burst of concurrent requests
                k = self.offthread_arrivals
                self.offthread_arrivals += 1
                self.inflight += 1
            try:
                time.sleep(max(0.0, 0.09 - 0.03 * k))
                with self._arrival_lock:
                    return self._mutate(entry)
            finally:
                with self._arrival_lock:
                    self.inflight -= 1
        return self._mutate(entry)

    def _mutate(self, entry):
        if self.crash_after is not None and len(self.log) >= self.crash_after:
            raise InjectedCrash(repr(entry))
        self.log.append(entry)


STORES = {}


def store(name):
    return STORES.setdefault(name, Store())


def reset():
    STORES.clear()


class _Bucket(object):
    def __init__(self, name):
        self.store = store(name)
        self.objects = _Objects(self.store)


class _Resource(object):
    def Bucket(self, name):
        return _Bucket(name)


class _Client(object):
    def put_object(self, Bucket, Key, Body, **kw):
        st = store(Bucket)
        b = Body.encode('utf-8') if isinstance(Body, str) else bytes(Body)
        st.mutate(('put', Key))
        st.data[Key] = (b, pytz.utc.localize(CLOCK.now), kw.get('StorageClass'))

    def get_object(self, Bucket, Key):
        st = store(Bucket)
        if Key not in st.data:
            raise NoSuchKey(Key)
        st.reads.append(Key)
        return {'Body': _Body(st.data[Key][0])}


fake_boto3 = types.SimpleNamespace(resource=lambda *a, **k: _Resource(), client=lambda *a, **k: _Client())


class _FakeUuidModule(object):
    """uuid1().hex values in an order unrelated to creation time (real uuid1 hex starts with time_low, which wraps
    every ~7 minutes: S3's lexicographic listing is not chronological)."""
    def __init__(self, seed):
        import random
        self.rng = random.Random(seed)

    def uuid1(self):
        return types.SimpleNamespace(hex="%032x" % self.rng.getrandbits(128))


def install(random_ids=None):
    """Patch the real modules (module attributes only; no source change)."""
    import playback.tape_cassettes.s3.s3_basic_facade as facade
    import playback.tape_cassettes.s3.s3_tape_cassette as s3c
    facade.boto3 = fake_boto3
    s3c.datetime = FakeDateTime
    if random_ids is not None:
        s3c.uuid = _FakeUuidModule(random_ids)
    return s3c
