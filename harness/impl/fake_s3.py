"""In-memory stand-in for boto3 placed behind the REAL S3BasicFacade (module attribute
`s3_basic_facade.boto3`).  Key-ordered listing like S3, tz-aware last_modified taken from the
fake clock, a mutation log, optional crash injection after the n-th mutation."""
import datetime
import threading
import time
import types

import pytz


class NoSuchKey(Exception):
    pass


class InjectedCrash(Exception):
    pass


class Clock(object):
    """Shared fake clock: naive UTC datetime."""
    def __init__(self):
        self.now = datetime.datetime(2020, 2, 27, 0, 0, 0)

    def set(self, dt):
        self.now = dt


CLOCK = Clock()


class FakeDateTime(datetime.datetime):
    """Substituted for `s3_tape_cassette.datetime` (process clock in UTC: today() == utcnow())."""
    @classmethod
    def today(cls):
        return CLOCK.now

    @classmethod
    def utcnow(cls):
        return CLOCK.now

    @classmethod
    def now(cls, tz=None):
        return CLOCK.now if tz is None else pytz.utc.localize(CLOCK.now).astimezone(tz)


class _Body(object):
    """like botocore's StreamingBody: a ONE-SHOT stream over the object's bytes - what was read is gone, a read after
    the end answers b'' (code that reads the body twice, e.g. once to log its size, gets nothing the second time)"""
    def __init__(self, b):
        self.b = b
        self.pos = 0
        self.nreads = 0

    def read(self, amt=None):
        self.nreads += 1
        end = len(self.b) if amt is None or amt < 0 else min(len(self.b), self.pos + amt)
        out = self.b[self.pos:end]
        self.pos = end
        return out

    def close(self):
        self.pos = len(self.b)


class _Obj(object):
    def __init__(self, store, key):
        self.store = store
        self.key = key

    @property
    def last_modified(self):
        return self.store.data[self.key][1]

    def get(self):
        self.store.reads.append(self.key)
        return {'Body': _Body(self.store.data[self.key][0])}

    def delete(self):
        if self.key in self.store.data:
            self.store.mutate(('delete', self.key))
            del self.store.data[self.key]


class _Coll(object):
    def __init__(self, store, prefix):
        self.store = store
        self.prefix = prefix or ''

    def __iter__(self):
        self.store.lists.append(self.prefix)
        return iter([_Obj(self.store, k) for k in sorted(self.store.data) if k.startswith(self.prefix)])

    def delete(self):
        for k in [k for k in sorted(self.store.data) if k.startswith(self.prefix)]:
            self.store.mutate(('delete', k))
            del self.store.data[k]

    # the resource collections walk every page whatever the page size is
    def page_size(self, count):
        return self

    def all(self):
        return self


class _Objects(object):
    def __init__(self, store):
        self.store = store

    def filter(self, Prefix=None, **kw):
        return _Coll(self.store, Prefix)

    def all(self):
        return _Coll(self.store, '')


class Store(object):
    def __init__(self):
        self.data = {}       # key -> (bytes, last_modified aware datetime, storage class)
        self.log = []        # mutation log
        self.reads = []
        self.lists = []
        self.crash_after = None   # raise InjectedCrash instead of performing mutation number crash_after (0-based)
        self.refuse_nth = None    # refuse (InjectedCrash) ONE mutation, the one after this many further mutations; later ones pass
        self.offthread_arrivals = 0
        self.inflight = 0
        self._arrival_lock = threading.Lock()

    def mutate(self, entry):
        # Adversarial ordering of CONCURRENT mutations: S3 gives no order to requests in flight at the same time, so
        # mutations issued from helper threads (never the case on the unchanged tree) land in REVERSE order of issue.
        if threading.current_thread() is not threading.main_thread():
            with self._arrival_lock:
                if self.inflight == 0:
                    self.offthread_arrivals = 0         # a new burst of concurrent requests
                k = self.offthread_arrivals
                self.offthread_arrivals += 1
                self.inflight += 1
            try:
                time.sleep(max(0.0, 0.09 - 0.03 * k))
                with self._arrival_lock:
                    return self._mutate(entry)
            finally:
                with self._arrival_lock:
                    self.inflight -= 1
        return self._mutate(entry)

    def _mutate(self, entry):
        if self.crash_after is not None and len(self.log) >= self.crash_after:
            raise InjectedCrash(repr(entry))
        if self.refuse_nth is not None:
            if self.refuse_nth <= 0:
                self.refuse_nth = None
                raise InjectedCrash(repr(entry))
            self.refuse_nth -= 1
        self.log.append(entry)


STORES = {}


def store(name):
    return STORES.setdefault(name, Store())


def reset():
    STORES.clear()


class _Bucket(object):
    def __init__(self, name):
        self.name = name
        self.store = store(name)
        self.objects = _Objects(self.store)

    # additive: other resource-level ways of deleting / reaching objects
    def delete_objects(self, Delete, **kw):
        return _Client().delete_objects(Bucket=self.name, Delete=Delete, **kw)

    def Object(self, key):
        return _ObjectResource(self.name, key)


class _ObjectResource(object):
    def __init__(self, bucket, key):
        self.bucket_name = bucket
        self.key = key

    def delete(self, **kw):
        return _Client().delete_object(Bucket=self.bucket_name, Key=self.key)

    def put(self, Body, **kw):
        return _Client().put_object(Bucket=self.bucket_name, Key=self.key, Body=Body, **kw)

    def get(self, **kw):
        return _Client().get_object(Bucket=self.bucket_name, Key=self.key)


class _Resource(object):
    def Bucket(self, name):
        return _Bucket(name)


# Listing page size of the fake CLIENT API.  S3 promises "at most MaxKeys (<= 1000)" keys per listing response and may
# return FEWER with IsTruncated=true, so a caller has to follow the continuation token whatever the page size is: the
# fake is adversarial and answers SMALL pages, which makes un-paginated code visible on short histories.
PAGE_SIZE = 3
# delete_objects accepts at most this many keys per request (S3: 1000 -> MalformedXML)
DELETE_BATCH_MAX = 1000


class ClientError(Exception):
    """stands in for botocore.exceptions.ClientError (bad continuation token, oversized delete batch)."""
    def __init__(self, code, message=''):
        Exception.__init__(self, "%s: %s" % (code, message))
        self.response = {'Error': {'Code': code, 'Message': message}}


def _etag(body):
    import hashlib
    return '"%s"' % hashlib.md5(body).hexdigest()


class _Paginator(object):
    """client.get_paginator('list_objects_v2' | 'list_objects').paginate(...): follows the continuation for the caller"""
    def __init__(self, client, operation_name):
        if operation_name not in ('list_objects_v2', 'list_objects'):
            raise ValueError('no paginator for ' + operation_name)
        self.client = client
        self.operation_name = operation_name

    def paginate(self, **kw):
        kw.pop('PaginationConfig', None)
        while True:
            page = getattr(self.client, self.operation_name)(**kw)
            yield page
            if not page['IsTruncated']:
                return
            if self.operation_name == 'list_objects_v2':
                kw['ContinuationToken'] = page['NextContinuationToken']
            else:
                kw['Marker'] = page.get('NextMarker') or page['Contents'][-1]['Key']


class _Client(object):
    # ---- listing / deletion through the client API (additive: the unchanged facade uses the resource collections) ----
    def _page(self, Bucket, Prefix, Delimiter, MaxKeys, after):
        """one listing page in key order (like S3): the keys that start with Prefix and come after the marker `after`;
        with a Delimiter the keys that contain it after the prefix are rolled up into one CommonPrefixes entry (which
        counts as one entry of the page and, when last on the page, is the marker of the next one).
        Returns (contents, common prefixes, truncated?, marker of the last entry)."""
        st = store(Bucket)
        prefix = Prefix or ''
        st.lists.append(prefix)
        size = PAGE_SIZE if MaxKeys is None else max(0, min(int(MaxKeys), PAGE_SIZE))

        def roll(k):
            if Delimiter:
                i = k.find(Delimiter, len(prefix))
                if i >= 0:
                    return k[:i + len(Delimiter)]
            return None

        entries = []                      # (marker, key or None for a common prefix), key order
        for k in sorted(st.data):
            if not k.startswith(prefix):
                continue
            r = roll(k)
            if after is not None and (k <= after or (r is not None and r == after)):
                continue
            if r is None:
                entries.append((k, k))
            elif not entries or entries[-1] != (r, None):
                entries.append((r, None))
        contents, commons = [], []
        for marker, k in entries[:size]:
            if k is None:
                commons.append(marker)
            else:
                body, modified, storage_class = st.data[k]
                contents.append({'Key': k, 'LastModified': modified, 'Size': len(body), 'ETag': _etag(body),
                                 'StorageClass': storage_class or 'STANDARD'})
        truncated = size > 0 and len(entries) > size
        last = entries[:size][-1][0] if entries[:size] else after
        return contents, commons, truncated, last

    def list_objects_v2(self, Bucket, Prefix='', Delimiter=None, MaxKeys=None, ContinuationToken=None, StartAfter=None,
                        **kw):
        after = StartAfter
        if ContinuationToken is not None:
            if not (isinstance(ContinuationToken, str) and ContinuationToken.startswith('tok:')):
                raise ClientError('InvalidArgument', 'The continuation token provided is incorrect')
            after = ContinuationToken[4:]
        contents, commons, truncated, last = self._page(Bucket, Prefix, Delimiter, MaxKeys, after)
        out = {'Name': Bucket, 'Prefix': Prefix or '', 'MaxKeys': 1000 if MaxKeys is None else MaxKeys,
               'KeyCount': len(contents) + len(commons), 'IsTruncated': truncated,
               'ResponseMetadata': {'HTTPStatusCode': 200}}
        if contents:                      # like S3: no 'Contents' entry at all for an empty page
            out['Contents'] = contents
        if commons:
            out['CommonPrefixes'] = [{'Prefix': p} for p in commons]
        if Delimiter:
            out['Delimiter'] = Delimiter
        if ContinuationToken is not None:
            out['ContinuationToken'] = ContinuationToken
        if StartAfter is not None:
            out['StartAfter'] = StartAfter
        if truncated:
            out['NextContinuationToken'] = 'tok:' + last
        return out

    def list_objects(self, Bucket, Prefix='', Delimiter=None, MaxKeys=None, Marker=None, **kw):
        contents, commons, truncated, last = self._page(Bucket, Prefix, Delimiter, MaxKeys, Marker or None)
        out = {'Name': Bucket, 'Prefix': Prefix or '', 'Marker': Marker or '', 'MaxKeys': 1000 if MaxKeys is None else MaxKeys,
               'IsTruncated': truncated, 'ResponseMetadata': {'HTTPStatusCode': 200}}
        if contents:
            out['Contents'] = contents
        if commons:
            out['CommonPrefixes'] = [{'Prefix': p} for p in commons]
        if Delimiter:
            out['Delimiter'] = Delimiter
            if truncated:                 # like S3: NextMarker only with a delimiter, otherwise the last key is the marker
                out['NextMarker'] = last
        return out

    def delete_object(self, Bucket, Key, **kw):
        st = store(Bucket)
        if Key in st.data:                # deleting a missing key is a successful no-op on S3
            st.mutate(('delete', Key))
            del st.data[Key]
        return {'ResponseMetadata': {'HTTPStatusCode': 204}}

    def delete_objects(self, Bucket, Delete, **kw):
        objects = list(Delete.get('Objects', []))
        if not objects or len(objects) > DELETE_BATCH_MAX:
            raise ClientError('MalformedXML', 'delete_objects takes 1..%d keys per request' % DELETE_BATCH_MAX)
        st = store(Bucket)
        deleted = []
        for o in objects:
            k = o['Key']
            if k in st.data:
                st.mutate(('delete', k))
                del st.data[k]
            deleted.append({'Key': k})
        out = {'ResponseMetadata': {'HTTPStatusCode': 200}}
        if not Delete.get('Quiet'):
            out['Deleted'] = deleted
        return out

    def head_object(self, Bucket, Key, **kw):
        st = store(Bucket)
        if Key not in st.data:
            raise ClientError('404', 'Not Found')
        body, modified, storage_class = st.data[Key]
        return {'ContentLength': len(body), 'LastModified': modified, 'ETag': _etag(body),
                'StorageClass': storage_class or 'STANDARD', 'ResponseMetadata': {'HTTPStatusCode': 200}}

    def get_paginator(self, operation_name):
        return _Paginator(self, operation_name)

    def put_object(self, Bucket, Key, Body, **kw):
        st = store(Bucket)
        b = Body.encode('utf-8') if isinstance(Body, str) else bytes(Body)
        st.mutate(('put', Key))
        st.data[Key] = (b, pytz.utc.localize(CLOCK.now), kw.get('StorageClass'))

    def get_object(self, Bucket, Key):
        st = store(Bucket)
        if Key not in st.data:
            raise NoSuchKey(Key)
        st.reads.append(Key)
        return {'Body': _Body(st.data[Key][0])}


fake_boto3 = types.SimpleNamespace(resource=lambda *a, **k: _Resource(), client=lambda *a, **k: _Client())


class _FakeUuidModule(object):
    """uuid1().hex values in an order unrelated to creation time (real uuid1 hex starts with time_low, which wraps
    every ~7 minutes: S3's lexicographic listing is not chronological)."""
    def __init__(self, seed):
        import random
        self.rng = random.Random(seed)

    def uuid1(self):
        return types.SimpleNamespace(hex="%032x" % self.rng.getrandbits(128))


def install(random_ids=None):
    """Patch the real modules (module attributes only; no source change)."""
    import playback.tape_cassettes.s3.s3_basic_facade as facade
    import playback.tape_cassettes.s3.s3_tape_cassette as s3c
    facade.boto3 = fake_boto3
    s3c.datetime = FakeDateTime
    if random_ids is not None:
        s3c.uuid = _FakeUuidModule(random_ids)
    return s3c
