"""C06 / C03: the real key builders of TapeRecorder."""
from driver_common import main
from lib.pyvals import to_py, from_py
from playback.tape_recorder import TapeRecorder, CapturedArg


def cap_of(spec):
    if spec is None:
        return None
    return [CapturedArg(p, n) for p, n in spec]


def key_for(alias, cap, static, args, kwargs):
    try:
        a = tuple(to_py(x) for x in args)
        kw = {k: to_py(v) for k, v in kwargs}
        return {"key": TapeRecorder._input_interception_key(alias, cap_of(cap), static, *a, **kw),
                "seen_args": [from_py(x) for x in a], "seen_kwargs": [[k, from_py(v)] for k, v in kw.items()]}
    except Exception as ex:
        return {"key": None, "err": type(ex).__name__}


def key_via_decorator(case):
    """The key under which the real decorator stores the call in a real recording."""
    from playback.tape_cassettes.in_memory.in_memory_tape_cassette import InMemoryTapeCassette
    cas = InMemoryTapeCassette()
    rec = TapeRecorder(cas)
    rec.enable_recording()
    alias, cap, static = case["alias"], cap_of(case["cap"]), case["static"]
    args = [to_py(x) for x in case["args"]]
    kw = {k: to_py(v) for k, v in case["kwargs"]}
    saved = []
    orig_save = cas._save_recording

    def spy_save(recording):
        saved.append(list(recording.get_all_keys()))
        return orig_save(recording)
    cas._save_recording = spy_save

    class Svc(object):
        if static:
            @staticmethod
            @rec.static_intercept_input(alias, capture_args=cap)
            def f(*a, **k):
                return 1
        else:
            @rec.intercept_input(alias, capture_args=cap)
            def f(self, *a, **k):
                return 1

    class Op(object):
        @rec.operation()
        def execute(self):
            if static:
                return Svc.f(*args, **kw)
            return Svc().f(*args[1:], **kw)

    Op().execute()
    if not saved:
        return {"dec_key": None, "dec_saved": False}
    ks = [k for k in saved[0] if k.startswith('input:')]
    return {"dec_key": ks[0] if ks else None, "dec_saved": True}


def run_c06(case):
    out = key_for(case["alias"], case["cap"], case["static"], case["args"], case["kwargs"])
    if case.get("via_decorator"):
        try:
            out.update(key_via_decorator(case))
        except Exception as ex:
            out.update({"dec_key": None, "dec_err": "%s: %s" % (type(ex).__name__, ex)})
    out["variants"] = [key_for(case["alias"], case["cap"], case["static"], v["args"], v["kwargs"]).get("key")
                       for v in case.get("variants", [])]
    return out


def run_c03(case):
    return {"key": TapeRecorder._output_interception_key(case["alias"], case["n"])}


if __name__ == '__main__':
    main({"C06": run_c06, "C03K": run_c03})
