"""C06 / C03: the real key builders of TapeRecorder."""
from driver_common import main
from lib import pyvals as pv
from lib.pyvals import to_py, from_py
from playback.tape_recorder import TapeRecorder, CapturedArg


def cap_of(spec):
    if spec is None:
        return None
    return [CapturedArg(p, n) for p, n in spec]


def key_for(alias, cap, static, args, kwargs):
    try:
        a = tuple(to_py(x) for x in args)
        kw = {k: to_py(v) for k, v in kwargs}
        return {"key": TapeRecorder._input_interception_key(alias, cap_of(cap), static, *a, **kw),
                "seen_args": [from_py(x) for x in a], "seen_kwargs": [[k, from_py(v)] for k, v in kw.items()]}
    except Exception as ex:
        return {"key": None, "err": type(ex).__name__}


def mutate(v, mode):
    """What an intercepted function may do to the arguments it was given: change, in place, every mutable container
    reachable from v (grow: one more element / member / attribute; drain: emptied; edit: one element replaced)."""
    if isinstance(v, tuple):
        for x in v:
            mutate(x, mode)
    elif isinstance(v, list):
        for x in v:
            mutate(x, mode)
        if mode == "grow":
            v.append("MUT")
        elif mode == "drain":
            del v[:]
        elif v:
            v[0] = "MUT"
    elif isinstance(v, set):
        if mode == "drain":
            v.clear()
        else:
            v.add("MUT")
    elif isinstance(v, dict) or isinstance(v, pv.Pt):
        d = v if isinstance(v, dict) else v.__dict__
        for x in list(d.values()):
            mutate(x, mode)
        if mode == "grow":
            d["zz_mut"] = 1
        elif mode == "drain":
            d.clear()
        elif d:
            d[next(iter(d))] = "MUT"


def key_via_decorator(case):
    """The key under which the real decorator stores the call in a real recording, and what the same call (made with
    fresh, structurally equal arguments) receives when that recording is played.  case["body"] says what the intercepted
    function does: nothing, or change its arguments in place (mode) and/or raise."""
    from playback.tape_cassettes.in_memory.in_memory_tape_cassette import InMemoryTapeCassette
    from playback.exceptions import RecordingKeyError, InputInterceptionKeyCreationError
    cas = InMemoryTapeCassette()
    rec = TapeRecorder(cas)
    rec.enable_recording()
    alias, cap, static = case["alias"], cap_of(case["cap"]), case["static"]
    body = case.get("body") or {}
    cur = {}

    def fresh():
        cur["args"] = [to_py(x) for x in case["args"]]
        cur["kw"] = {k: to_py(v) for k, v in case["kwargs"]}
    fresh()
    saved = []
    live = []
    orig_save = cas._save_recording

    def spy_save(recording):
        saved.append((recording.id, list(recording.get_all_keys())))
        return orig_save(recording)
    cas._save_recording = spy_save

    def the_body(a, k):
        live.append(1)
        if body.get("mode"):
            mutate(a, body["mode"])
            mutate(tuple(k.values()), body["mode"])
        if body.get("raise"):
            raise pv.CustomError("boom")
        return "R"

    class Svc(object):
        if static:
            @staticmethod
            @rec.static_intercept_input(alias, capture_args=cap)
            def f(*a, **k):
                return the_body(a, k)
        else:
            @rec.intercept_input(alias, capture_args=cap)
            def f(self, *a, **k):
                return the_body(a, k)

    def call():
        if static:
            return Svc.f(*cur["args"], **cur["kw"])
        return Svc().f(*cur["args"][1:], **cur["kw"])

    class Op(object):
        @rec.operation()
        def execute(self):
            return call()

    try:
        Op().execute()
    except pv.CustomError:
        if not body.get("raise"):
            raise
    if not saved:
        return {"dec_key": None, "dec_saved": False}
    ks = [k for k in saved[0][1] if k.startswith('input:')]
    out = {"dec_key": ks[0] if ks else None, "dec_saved": True, "dec_nkeys": len(ks)}
    # replay: the same call, arguments built afresh (the values they had when the recorded call was made)
    fresh()
    del live[:]
    got = []

    def playback_function(_recording):
        try:
            got.append(["value", call()])
        except pv.CustomError:
            got.append(["raised", "CustomError"])
        except RecordingKeyError:
            got.append(["miss", "RecordingKeyError"])
        except InputInterceptionKeyCreationError:
            got.append(["keyerr", "InputInterceptionKeyCreationError"])
    rec.play(saved[0][0], playback_function)
    out["replay"] = got[0] if got else None
    out["replay_live"] = len(live)
    return out


def run_threads(case):
    """case["conc"]: one operation whose worker threads call the intercepted input concurrently; every call passes the
    SAME argument objects except for one int (the first real argument), which is the ordinal of the call.  Reports how the
    input keys of that recording, and what each call receives when the recording is played by the same threads, differ
    from the keys the key builder gives for the same calls one after the other."""
    import sys
    import threading
    from playback.tape_cassettes.in_memory.in_memory_tape_cassette import InMemoryTapeCassette
    conc = case["conc"]
    n, m = conc["threads"], conc["calls"]
    alias, cap, static = case["alias"], cap_of(case["cap"]), case["static"]
    shared = [to_py(x) for x in case["args"]]
    kw = {k: to_py(v) for k, v in case["kwargs"]}
    vary = conc.get("vary_kw") or (0 if static else 1)     # the ordinal: a keyword, or the first real positional argument

    def call_args(s):
        a, k = list(shared), dict(kw)
        if isinstance(vary, int):
            a[vary] = s
        else:
            k[vary] = s
        return a, k

    def seq_key(s):
        a, k = call_args(s)
        return TapeRecorder._input_interception_key(alias, cap, static, *a, **k)
    expected = {}
    for s in range(n * m):
        expected.setdefault(seq_key(s), s)

    cas = InMemoryTapeCassette()
    rec = TapeRecorder(cas)
    rec.enable_recording()
    saved = []
    live = []
    orig_save = cas._save_recording

    def spy_save(recording):
        saved.append((recording.id, list(recording.get_all_keys())))
        return orig_save(recording)
    cas._save_recording = spy_save

    def the_body(a, k):
        live.append(1)
        return "R%d" % (a[0] if isinstance(vary, int) else k[vary])

    class Svc(object):
        if static:
            @staticmethod
            @rec.static_intercept_input(alias, capture_args=cap)
            def f(*a, **k):
                return the_body(a, k)
        else:
            @rec.intercept_input(alias, capture_args=cap)
            def f(self, *a, **k):
                return the_body(a, k)

    def call(s):
        a, k = call_args(s)
        if static:
            return Svc.f(*a, **k)
        return Svc().f(*a[1:], **k)

    results, errors = {}, []

    def fan_out():
        barrier = threading.Barrier(n)

        def gate():
            try:
                barrier.wait(0.5)
            except threading.BrokenBarrierError:
                pass

        def work(w):
            for i in range(m):
                s = w * m + i
                try:
                    results[s] = call(s)
                except Exception as ex:     # noqa
                    errors.append("%s: %s" % (type(ex).__name__, str(ex)[:200]))
        threads = [threading.Thread(target=work, args=(w,)) for w in range(n)]
        old = sys.getswitchinterval()
        pv.GATE_HOOK = gate if conc.get("gate") else None
        sys.setswitchinterval(1e-5)
        try:
            for t in threads:
                t.start()
            for t in threads:
                t.join()
        finally:
            sys.setswitchinterval(old)
            pv.GATE_HOOK = None

    class Op(object):
        @rec.operation()
        def execute(self):
            fan_out()

    Op().execute()
    out = {"n_calls": n * m, "n_expected": len(expected), "rec_errors": sorted(set(errors))[:3], "saved": bool(saved)}
    if not saved:
        return out
    stored = [k for k in saved[0][1] if k.startswith('input:')]
    out["missing"] = sorted(k for k in expected if k not in stored)[:3]
    out["n_missing"] = sum(1 for k in expected if k not in stored)
    out["extra"] = sorted(k for k in stored if k not in expected)[:3]
    out["n_extra"] = sum(1 for k in stored if k not in expected)
    # replay by the same threads: every call receives what was recorded for a call with its key
    results.clear()
    del errors[:]
    del live[:]
    rec.play(saved[0][0], lambda _r: fan_out())
    out["replay_errors"] = sorted(set(errors))[:3]
    out["replay_live"] = len(live)
    out["replay_answered"] = len(results)
    # a call may only receive a value recorded for a call with the same key (the last one recorded wins)
    key_of = {s: seq_key(s) for s in range(n * m)}
    allowed = {}
    for s, k in key_of.items():
        allowed.setdefault(k, set()).add("R%d" % s)
    wrong = [[s, results[s]] for s in sorted(results) if results[s] not in allowed[key_of[s]]]
    out["replay_wrong"] = wrong[:3]
    out["n_replay_wrong"] = len(wrong)
    return out


def run_lookup(case):
    """case["lookup"]: the interception as the CURRENT version of a service declares it (alias, optional
    alias_params_resolver, fallback_aliases as a list or a function) next to older versions of the same input, one per
    fallback alias (plain alias, same capture selection).  One operation is recorded whose calls (lookup["calls"]; call 0
    = the case's own arguments) are made through the version lookup["rec"] says ([version, call] per entry; version 0 =
    current, k = the one named fallbacks[k-1]); entry n returns "R<n>".  Then the recording is played with the current
    version making every call once.  Reported per entry: the input key it added to the recording; per call: the keys the
    current version looked up (main alias first, then the fallback aliases; None = key creation failed), the keys the key
    builder gives the same call under each of those aliases, what the call received, live executions."""
    from playback.tape_cassettes.in_memory.in_memory_tape_cassette import InMemoryTapeCassette
    from playback.exceptions import RecordingKeyError, InputInterceptionKeyCreationError
    lk = case["lookup"]
    alias, cap, static = case["alias"], cap_of(case["cap"]), case["static"]
    fbs = list(lk["fallbacks"])
    calls = [[case["args"], case["kwargs"]]] + [list(c) for c in lk.get("calls", [])]
    off = 0 if static else 1
    resolver = None
    if lk.get("resolver") is not None:
        ri = lk["resolver"]

        def resolver(*a, **k):
            v = a[ri + off]
            if not isinstance(v, str):
                raise TypeError("resolver wants a str")
            return {"p": v}
    fb_arg = fbs if lk.get("fb_kind", "list") == "list" else (lambda *a, **k: list(fbs))

    cas = InMemoryTapeCassette()
    rec = TapeRecorder(cas)
    rec.enable_recording()
    live = []
    cur = {"ret": None}
    holder = {}
    orig_create = cas.create_new_recording

    def spy_create(category):
        holder["recording"] = orig_create(category)
        return holder["recording"]
    cas.create_new_recording = spy_create
    saved = []
    orig_save = cas._save_recording

    def spy_save(recording):
        saved.append(recording.id)
        return orig_save(recording)
    cas._save_recording = spy_save

    def the_body():
        live.append(1)
        return cur["ret"]

    def version(al, **opts):
        class Svc(object):
            if static:
                @staticmethod
                @rec.static_intercept_input(al, capture_args=cap, **opts)
                def f(*a, **k):
                    return the_body()
            else:
                @rec.intercept_input(al, capture_args=cap, **opts)
                def f(self, *a, **k):
                    return the_body()
        return Svc
    versions = [version(alias, alias_params_resolver=resolver, fallback_aliases=fb_arg)] + [version(fa) for fa in fbs]

    def call(vi, ci):
        a = [to_py(x) for x in calls[ci][0]]
        k = {n: to_py(v) for n, v in calls[ci][1]}
        svc = versions[vi]
        if static:
            return svc.f(*a, **k)
        return svc().f(*a[1:], **k)

    entries = []

    class Op(object):
        @rec.operation()
        def execute(self):
            for n, (vi, ci) in enumerate(lk["rec"]):
                before = set(holder["recording"].get_all_keys())
                cur["ret"] = "R%d" % n
                call(vi, ci)
                new = sorted(k for k in holder["recording"].get_all_keys() if k not in before and k.startswith('input:'))
                entries.append(new[0] if len(new) == 1 else None if not new else new)

    Op().execute()
    out = {"saved": bool(saved), "entries": entries}
    if not saved:
        return out
    # the keys the key builder gives each call under each alias (formatted main alias first)
    want = []
    for a_j, kw_j in calls:
        a = [to_py(x) for x in a_j]
        k = {n: to_py(v) for n, v in kw_j}
        try:
            main = TapeRecorder._format_alias(alias, resolver, *a, **k)
            want.append([TapeRecorder._input_interception_key(al, cap, static, *a, **k) for al in [main] + fbs])
        except Exception as ex:     # noqa
            want.append(None)
    out["want_keys"] = want
    looked = []
    orig_lookup = rec._playback_recorded_interception

    def spy_lookup(possible_keys, *a, **k):
        looked.append(list(possible_keys))
        return orig_lookup(possible_keys, *a, **k)
    rec._playback_recorded_interception = spy_lookup
    res = []

    def playback_function(_recording):
        for ci in range(len(calls)):
            del looked[:]
            del live[:]
            cur["ret"] = "LIVE"
            try:
                got = ["value", call(0, ci)]
            except RecordingKeyError:
                got = ["miss", "RecordingKeyError"]
            except InputInterceptionKeyCreationError:
                got = ["keyerr", "InputInterceptionKeyCreationError"]
            res.append({"keys": looked[0] if looked else None, "got": got, "live": len(live)})
    rec.play(saved[0], playback_function)
    out["calls"] = res
    return out


def save_on(kind, case):
    """record and save one operation (which makes the case's call through a decorated input) on a fresh cassette of `kind`"""
    import shutil
    import tempfile
    cleanup = lambda: None      # noqa: E731
    if kind == "file":
        from playback.tape_cassettes.file_based.file_based_tape_cassette import FileBasedTapeCassette
        d = tempfile.mkdtemp(prefix="verif_keys_")
        cas, cleanup = FileBasedTapeCassette(d), (lambda: shutil.rmtree(d, ignore_errors=True))
    elif kind == "s3":
        import os
        import fake_s3
        s3c = fake_s3.install()
        save_on.n = getattr(save_on, "n", 0) + 1
        cas, cleanup = s3c.S3TapeCassette("kd%d_%d" % (os.getpid(), save_on.n), key_prefix="pre", read_only=False), fake_s3.reset
    else:
        from playback.tape_cassettes.in_memory.in_memory_tape_cassette import InMemoryTapeCassette
        cas = InMemoryTapeCassette()
    try:
        rec = TapeRecorder(cas)
        rec.enable_recording()
        f = rec.static_intercept_input("history")(lambda *a, **k: "R")

        class Op(object):
            @rec.operation()
            def execute(self):
                return f(*[to_py(x) for x in case["args"]], **{k: to_py(v) for k, v in case["kwargs"]})
        Op().execute()
    finally:
        cleanup()


def run_c06(case):
    out = key_for(case["alias"], case["cap"], case["static"], case["args"], case["kwargs"])
    if case.get("after_save"):
        out["key_after_save"] = []
        for kind in case["after_save"]:
            try:
                save_on(kind, case)
                k2 = key_for(case["alias"], case["cap"], case["static"], case["args"], case["kwargs"]).get("key")
            except Exception as ex:
                k2 = "save failed: %s: %s" % (type(ex).__name__, str(ex)[:200])
            out["key_after_save"].append([kind, k2])
    if case.get("lookup"):
        try:
            out["lookup"] = run_lookup(case)
        except Exception as ex:
            out["lookup"] = {"err": "%s: %s" % (type(ex).__name__, ex)}
    if case.get("via_decorator"):
        try:
            out.update(key_via_decorator(case))
        except Exception as ex:
            out.update({"dec_key": None, "dec_err": "%s: %s" % (type(ex).__name__, ex)})
    if case.get("conc"):
        out["conc"] = run_threads(case)
    out["variants"] = [key_for(case["alias"], case["cap"], case["static"], v["args"], v["kwargs"]).get("key")
                       for v in case.get("variants", [])]
    return out


def run_c03(case):
    return {"key": TapeRecorder._output_interception_key(case["alias"], case["n"])}


if __name__ == '__main__':
    main({"C06": run_c06, "C03K": run_c03})
