"""C04 / C05 under racing threads: the REAL TapeRecorder methods that read or write the active recording, preempted
deterministically at every shared access.

The recorder's shared fields (_active_recording, _active_recording_parameters, _force_sample) are turned into
properties on a subclass, the finalization lock into a proxy, the cassette's abort/save into spies: each access outside
a locked region, each locked region as a whole and each hand-over to the cassette is one EVENT.  A case runs a victim
method and, just before its e-th event, lets "another thread" run an interfering method to completion (as a
preemption at that point would), then lets the victim finish.  Observed: whether either method leaked an exception,
how often the recording was handed to the cassette, and the shared fields afterwards."""
import threading

from driver_common import main
from playback.tape_recorder import TapeRecorder, RecordingParameters
from playback.tape_cassettes.in_memory.in_memory_tape_cassette import InMemoryTapeCassette

METHODS = ["discard", "finalise", "force", "record_data", "post", "current_id"]


class _Lock(object):
    def __init__(self, owner):
        self.owner = owner
        self.real = threading.Lock()

    def __enter__(self):
        self.owner._event("lock")
        self.owner._depth += 1
        self.real.acquire()
        return self

    def __exit__(self, *a):
        self.real.release()
        self.owner._depth -= 1


def _shared(name):
    key = "_v" + name

    def get(self):
        self._event("r" + name)
        return self.__dict__.get(key)

    def put(self, v):
        self._event("w" + name)
        self.__dict__[key] = v
    return property(get, put)


class Probe(TapeRecorder):
    _active_recording = _shared("_active_recording")
    _active_recording_parameters = _shared("_active_recording_parameters")
    _force_sample = _shared("_force_sample")

    def __init__(self, *a, **k):
        d = self.__dict__
        d["_depth"] = 0
        d["_phase"] = None
        d["_count"] = [0, 0, 0]
        d["_fire_at"] = []
        d["_interferers"] = []
        super(Probe, self).__init__(*a, **k)
        if hasattr(self, "_finalization_lock"):
            self._finalization_lock = _Lock(self)

    def _event(self, kind):
        """_phase = index of the running thread (0 = victim, 1 = its interferer, 2 = the interferer's interferer) or None;
        thread k is preempted just before its _fire_at[k]-th event by thread k+1, which runs to completion."""
        d = self.__dict__
        if d.get("_sched") is not None:
            if d["_depth"] == 0:
                d["_sched"].boundary()
            return
        k = d["_phase"]
        if k is None or d["_depth"] > 0:
            return
        fire, count = d["_fire_at"], d["_count"]
        if k < len(fire) and fire[k] is not None and count[k] == fire[k]:
            fire[k] = None
            d["_phase"] = k + 1
            depth = d["_depth"]
            try:
                d["_interferers"][k]()
            finally:
                d["_phase"] = k
                d["_depth"] = depth
        count[k] += 1


class Scheduler(object):
    """Real threads, one per method, run strictly one at a time: a thread stops just before each of its events (shared
    access / locked region / hand-over to the cassette) and goes on only when the schedule names it."""
    WAIT = 20

    def __init__(self, n):
        self.tl = threading.local()
        self.go = [threading.Semaphore(0) for _ in range(n)]
        self.arrived = threading.Semaphore(0)
        self.done = [False] * n
        self.stuck = False

    def boundary(self):
        i = getattr(self.tl, "idx", None)
        if i is None:
            return
        self.arrived.release()
        if not self.go[i].acquire(timeout=self.WAIT):
            self.stuck = True
            raise SystemExit("scheduler: thread %d never resumed" % i)

    def thread(self, i, fn):
        def body():
            self.tl.idx = i
            try:
                self.boundary()             # wait for the first grant before doing anything
                fn()
            finally:
                self.done[i] = True
                self.tl.idx = None
                self.arrived.release()
        t = threading.Thread(target=body)
        t.daemon = True
        return t

    def step(self, i):
        if self.done[i]:
            return
        self.go[i].release()
        if not self.arrived.acquire(timeout=self.WAIT):
            self.stuck = True
            raise RuntimeError("scheduler: thread %d did not reach its next event" % i)


class Cas(InMemoryTapeCassette):
    def __init__(self, rec_holder):
        super(Cas, self).__init__()
        self.holder = rec_holder
        self.handed = 0

    def abort_recording(self, recording=None):
        self.holder[0]._event("cass")
        if recording is not None:          # (abort_recording(None) fails inside: nothing was handed over)
            self.handed += 1
        return super(Cas, self).abort_recording(recording)

    def save_recording(self, recording):
        self.holder[0]._event("cass")
        self.handed += 1
        return super(Cas, self).save_recording(recording)


class _Fixed(object):
    def __init__(self, v):
        self.v = v

    def random(self):
        return self.v


def run_race(case):
    holder = [None]
    cas = Cas(holder)
    rec = Probe(cas)
    holder[0] = rec
    rec.enable_recording()
    rec._random = _Fixed(0.9 if case.get("sampled_out") else 0.1)

    class Op(object):
        pass
    rec.recording_params(RecordingParameters(sampling_rate=0.5))(Op)
    cm = rec.start_recording("Op", {TapeRecorder.OPERATION_CLASS: Op})
    cm.__enter__()
    exited = [False]

    def call(m):
        if m == "discard":
            rec.discard_recording()
        elif m == "force":
            rec.force_sample_recording()
        elif m == "record_data":
            rec.record_data("k", 1)
        elif m == "post":
            rec._execute_func_and_record_interception(lambda: 5, "input: k args=[], kwargs=[]", (), {})
        elif m == "current_id":
            rec.current_recording_id
        elif m == "finalise":
            if not exited[0]:
                exited[0] = True
                cm.__exit__(None, None, None)
        else:
            raise ValueError(m)

    out = {}

    def guarded(who, m):
        try:
            call(m)
            out[who] = "done"
        except (AttributeError, AssertionError, TypeError) as ex:
            out[who] = "crash:" + type(ex).__name__
        except Exception as ex:
            out[who] = "other:" + type(ex).__name__

    d = rec.__dict__
    if "sched" in case:
        return run_scheduled(case, rec, cas, guarded, out, exited, cm)

    def run_third():
        d["_phase"] = 2
        guarded("third", case["third"])

    def run_interferer():
        d["_phase"] = 1
        guarded("interferer", case["interferer"])
        if case.get("third") and "third" not in out:    # the interferer had fewer events than f: the third thread runs next
            run_third()

    d["_interferers"] = [run_interferer, run_third]
    d["_fire_at"] = [case["e"], case.get("f") if case.get("third") else None]
    d["_count"] = [0, 0, 0]
    d["_phase"] = 0
    guarded("victim", case["victim"])
    events = d["_count"][0]
    if "interferer" not in out:            # the victim had fewer events than e: the other threads run afterwards
        run_interferer()
    d["_phase"] = None
    res = {"victim": out["victim"], "interferer": out["interferer"], "third": out.get("third", "done"), "events": events,
           "ar": d.get("_v_active_recording") is not None, "ap": d.get("_v_active_recording_parameters") is not None,
           "fs": bool(d.get("_v_force_sample")), "handed": min(cas.handed, 2),
           "has_lock": hasattr(TapeRecorder(InMemoryTapeCassette()), "_finalization_lock")}
    # leave the scope (outside the experiment)
    if not exited[0]:
        try:
            cm.__exit__(None, None, None)
        except Exception:
            pass
    return res


def run_scheduled(case, rec, cas, guarded, out, exited, cm):
    """an arbitrary schedule: case["methods"][i] runs on real thread i; case["sched"] = thread indices, one event each; what
    is left afterwards runs to completion thread by thread.  (A thread's first grant only starts it: it then runs up to
    its first event, so the schedule is prefixed by one start grant per thread.)"""
    ms = case["methods"]
    d = rec.__dict__
    sch = Scheduler(len(ms))
    names = ["victim", "interferer", "third"]
    threads = [sch.thread(i, (lambda i=i: guarded(names[i], ms[i]))) for i in range(len(ms))]
    d["_sched"] = sch
    try:
        for t in threads:
            t.start()
        for i in range(len(ms)):            # every thread arrives at its start boundary
            if not sch.arrived.acquire(timeout=Scheduler.WAIT):
                raise RuntimeError("scheduler: a thread did not start")
        for i in range(len(ms)):            # start grant: run up to the first event
            sch.step(i)
        for i in case["sched"]:
            sch.step(i)
        for i in range(len(ms)):
            guard = 0
            while not sch.done[i]:
                sch.step(i)
                guard += 1
                if guard > 100:
                    raise RuntimeError("scheduler: thread %d does not finish" % i)
        for t in threads:
            t.join(Scheduler.WAIT)
    finally:
        d["_sched"] = None
    res = {"victim": out.get("victim", "done"), "interferer": out.get("interferer", "done"), "third": out.get("third", "done"),
           "events": -1,
           "ar": d.get("_v_active_recording") is not None, "ap": d.get("_v_active_recording_parameters") is not None,
           "fs": bool(d.get("_v_force_sample")), "handed": min(cas.handed, 2),
           "has_lock": hasattr(TapeRecorder(InMemoryTapeCassette()), "_finalization_lock")}
    if not exited[0]:
        try:
            cm.__exit__(None, None, None)
        except Exception:
            pass
    return res


if __name__ == '__main__':
    main({"C04": run_race, "C05": run_race, "RACE": run_race})
