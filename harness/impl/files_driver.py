"""C20: the REAL file data handlers, at unit level and end to end through the REAL TapeRecorder and the
three REAL cassettes (in-memory, file-based in a scratch directory, S3 over fake_s3).  Fakes only at the
process boundary: the fake bucket, a journalling wrapper around builtins.open / io.open, and (for sizes
that cannot be materialised) os.path.getsize."""
import atexit
import builtins
import io
import os
import shutil
import threading
from fractions import Fraction

import fake_s3
from driver_common import main
from lib import filespec

from playback.tape_recorder import TapeRecorder, CapturedArg
from playback.tape_cassettes.in_memory.in_memory_tape_cassette import InMemoryTapeCassette
from playback.tape_cassettes.file_based.file_based_tape_cassette import FileBasedTapeCassette
from playback.interception.files.file_interception import FileInterception
from playback.interception.files.input_file_interception import InputInterceptionFileDataHandler
from playback.interception.files.output_file_interception import OutputInterceptionFileDataHandler

ENV = 'PLAYBACK_INTERCEPTED_FILE_SIZE_LIMIT'
REAL_OPEN = builtins.open
REAL_GETSIZE = os.path.getsize
ROOT = '/tmp/files-scratch-%d' % os.getpid()
_counter = [0]
s3c = fake_s3.install()


def _cleanup():
    shutil.rmtree(ROOT, ignore_errors=True)


atexit.register(_cleanup)


def scratch(unicode_dir=False):
    _counter[0] += 1
    d = os.path.join(ROOT, ('c%d é中' if unicode_dir else 'c%d') % _counter[0])
    os.makedirs(d)
    return d


def form_path(d, name, form):
    """The path string handed to the code under test for the file `name` of the case directory d (which is the current
    directory while the case runs): 'abs' - absolute; 'bare' - the bare file name; 'dot' - './name'; 'sub' - 'sub/name'
    with the directory present; 'sub-missing' - 'nosuch/name', the directory absent; 'abs-sub' - absolute, in a
    sub-directory; 'dotdot' - 'sub/../name'.  The same strings reach the journal and the checks through abspath."""
    if form in (None, 'abs'):
        return os.path.join(d, name)
    if form == 'bare':
        return name
    if form == 'dot':
        return os.path.join(os.curdir, name)
    if form == 'sub':
        return os.path.join('sub', name)
    if form == 'abs-sub':
        return os.path.join(d, 'sub', name)
    if form == 'dotdot':
        return os.path.join('sub', os.pardir, name)
    if form == 'sub-missing':
        return os.path.join('nosuch', name)
    raise ValueError(form)


class WorkDir(object):
    """the case runs with its scratch directory as the current directory (relative paths resolve there)"""
    def __init__(self, d):
        self.d = d

    def __enter__(self):
        self.old = os.getcwd()
        os.makedirs(os.path.join(self.d, 'sub'))
        os.chdir(self.d)

    def __exit__(self, *a):
        os.chdir(self.old)


def write_file(path, spec):
    with REAL_OPEN(path, 'wb') as f:
        if filespec.is_sparse(spec):
            f.truncate(spec["n"])
        else:
            f.write(filespec.expand(spec))


def rewrite_file(path, spec, stamp=None, how='inplace'):
    """(Re)write the file the way the writers of intercepted files do: in place or through a temporary file that
    replaces it; `stamp` = what the writer does to the modification time afterwards: None - nothing (the clock's),
    an int - sets it (a downloader stamping the server's time, `cp -p`, archive extraction), 'keep' - puts back
    the time the path had before (tools that edit in place and preserve the timestamps)."""
    before = os.stat(path) if os.path.exists(path) else None
    if how == 'replace':
        tmp = path + '.part'
        write_file(tmp, spec)
        os.replace(tmp, path)
    else:
        write_file(path, spec)
    if stamp == 'keep':
        if before is not None:
            os.utime(path, ns=(before.st_atime_ns, before.st_mtime_ns))
    elif stamp is not None:
        os.utime(path, (stamp, stamp))


def read_file(path):
    if not os.path.exists(path):
        return None
    with REAL_OPEN(path, 'rb') as f:
        return f.read()


class EnvVar(object):
    def __init__(self, text):
        self.text = text

    def __enter__(self):
        self.old = os.environ.pop(ENV, None)
        if self.text is not None:
            os.environ[ENV] = self.text

    def __exit__(self, *a):
        os.environ.pop(ENV, None)
        if self.old is not None:
            os.environ[ENV] = self.old


def explicit_limit(lim):
    """{"explicit": [num, den] | None, "type": "float" | "int"} -> the value handed to the constructor"""
    e = lim.get("explicit")
    if e is None:
        return None
    fr = Fraction(e[0], e[1])
    if lim.get("type") == "int":
        assert fr.denominator == 1
        return int(fr)
    v = float(fr)
    assert Fraction(v) == fr, "limit is not exactly a float"
    return v


class Journal(object):
    """Wraps builtins.open / io.open; logs (role, mode) for the files of the case."""
    def __init__(self, roles):
        self.roles = roles
        self.log = []

    def _open(self, file, mode='r', *a, **k):
        try:
            role = self.roles.get(os.path.abspath(os.fspath(file))) if not isinstance(file, int) else None
        except TypeError:
            role = None
        if role is not None:
            self.log.append((role, mode))
        return REAL_OPEN(file, mode, *a, **k)

    def __enter__(self):
        builtins.open = self._open
        io.open = self._open
        return self

    def __exit__(self, *a):
        builtins.open = REAL_OPEN
        io.open = REAL_OPEN

    def reads(self):
        return [r for r, m in self.log if not any(c in m for c in 'wax') or '+' in m]


def exc_name(ex):
    return type(ex).__name__


# ---------------------------------------------------------------------------------------- unit level
def run_b64(case):
    content = filespec.expand(case["content"])
    ser = FileInterception._serialize_file(content, 'p')
    enc = ser['file_content']
    out = {"enc": filespec.show_bytes(enc if isinstance(enc, bytes) else enc.encode('latin-1')),
           "enc_type": type(enc).__name__, "keys": sorted(ser)}
    try:
        path, dec = FileInterception._deserialize_file(ser)
        out["dec"] = filespec.show_bytes(dec)
        out["dec_path"] = path
    except Exception as ex:
        out["dec_raises"] = exc_name(ex)
    return out


def run_above(case):
    lim = case["limit"]
    with EnvVar(lim.get("env")):
        try:
            h = InputInterceptionFileDataHandler(0, 'path', explicit_limit(lim))
        except Exception as ex:
            return {"raises": exc_name(ex)}
    fr = Fraction(h.intercepted_size_limit)
    out = {"limit": [fr.numerator, fr.denominator]}
    d = scratch()
    path = os.path.join(d, 'f.bin')
    try:
        if case.get("fake_getsize"):
            REAL_OPEN(path, 'wb').close()
            os.path.getsize = lambda p: case["size"]
        else:
            write_file(path, {"zeros": 1, "n": case["size"]})
        with Journal({path: 'F'}) as j:
            try:
                out["above"] = bool(h._is_file_above_size_limit(path))
            except Exception as ex:
                out["above_raises"] = exc_name(ex)
        out["reads"] = j.reads()
    finally:
        os.path.getsize = REAL_GETSIZE
        shutil.rmtree(d, ignore_errors=True)
    return out


def show_arg(v):
    if v is None:
        return {"none": 1}
    if isinstance(v, str):
        return {"s": v}
    return {"other": bool(v)}


def run_path(case):
    h = InputInterceptionFileDataHandler(case["index"], case["name"], 1)
    args = tuple(filespec.real_value(a) for a in case["args"])
    kwargs = {k: filespec.real_value(v) for k, v in case["kwargs"].items()}
    try:
        return {"path": show_arg(h._get_file_path(args, kwargs))}
    except Exception as ex:
        return {"raises": exc_name(ex)}


# ---------------------------------------------------------------------------------------- end to end
def make_cassette(kind, d):
    if kind == "mem":
        return InMemoryTapeCassette()
    if kind == "file":
        return FileBasedTapeCassette(os.path.join(d, 'cassette'))
    if kind == "s3":
        return s3c.S3TapeCassette('c20-%d-%d' % (os.getpid(), _counter[0]), key_prefix='pre', read_only=False)
    raise ValueError(kind)


def run_trip(case):
    d = scratch(case.get("dir") == "unicode")
    try:
        with WorkDir(d):
            return _run_trip(case, d)
    finally:
        shutil.rmtree(d, ignore_errors=True)
        fake_s3.reset()


def _run_trip(case, d):
    name = case["name"]
    forms = case.get("path_form") or {}
    paths = {r: form_path(d, r.lower() + '.bin', forms.get("rec" if r[0] == "R" else "play"))
             for r in ("RI", "RO", "PI", "PO")}
    if case.get("unwritable") and forms.get("play") != "sub-missing":
        paths["PI"] = os.path.join(d, 'no-such-dir', 'pi.bin')
    roles = {p: r for r, p in paths.items()}                             # by the string handed to the code
    abs_roles = {os.path.abspath(p): r for r, p in paths.items()}       # by the file (journal of open calls)

    def role_of(p):
        return roles.get(p, '?') if isinstance(p, str) else '?'

    lim = case["limit"]
    with EnvVar(lim.get("env")):
        ih = InputInterceptionFileDataHandler(case["in"]["index"], name, explicit_limit(lim))
        oh = OutputInterceptionFileDataHandler(case["out"]["index"], name, explicit_limit(lim))
    cassette = make_cassette(case["cassette"], d)
    saved = []
    real_save = cassette.save_recording
    cassette.save_recording = lambda recording: (saved.append(recording.id), real_save(recording))[1]
    recorder = TapeRecorder(cassette)
    recorder.enable_recording()
    bodies = []
    in_errors = []

    @recorder.static_intercept_input('fetch', capture_args=[], data_handler=ih)
    def s_fetch(*a, **k):
        bodies.append('fetch')
        return 'body'

    @recorder.static_intercept_output('store', data_handler=oh)
    def s_store(*a, **k):
        bodies.append('store')
        return None

    class Op(object):
        @recorder.intercept_input('fetch', capture_args=[], data_handler=ih)
        def i_fetch(self, *a, **k):
            bodies.append('fetch')
            return 'body'

        @recorder.intercept_output('store', data_handler=oh)
        def i_store(self, *a, **k):
            bodies.append('store')
            return None

        @recorder.operation()
        def execute(self, in_call, out_call, out_path, out_spec):
            try:
                got = in_call(self)
            except Exception as ex:
                in_errors.append(exc_name(ex))
                raise
            write_file(out_path, out_spec)
            out_call(self)
            return role_of(got) if got != 'body' else 'body'

    def caller(spec, which, mode, path):
        extras = [filespec.real_value(a) for a in spec["extras"]]
        args, kwargs = filespec.call_args(extras, mode, path, name)
        if spec["static"]:
            f = s_fetch if which == 'in' else s_store
            return lambda op: f(*args, **kwargs)
        return (lambda op: op.i_fetch(*args, **kwargs)) if which == 'in' else (lambda op: op.i_store(*args, **kwargs))

    write_file(paths["RI"], case["content"])
    out = {}
    with Journal(abs_roles) as j:
        Op().execute(caller(case["in"], 'in', case["in"]["rec"], paths["RI"]),
                     caller(case["out"], 'out', case["out"]["rec"], paths["RO"]),
                     paths["RO"], case["out_content"])
    out["opened_rec"] = j.reads()
    out["bodies_rec"] = list(bodies)
    if len(saved) != 1:
        out["status"] = "discarded" if not saved else "saved-%d" % len(saved)
        return out
    rid = saved[0]
    recording = cassette.get_recording(rid)

    def raw(prefix, suffix=''):
        keys = [k for k in recording.get_all_keys() if k.startswith(prefix) and k.endswith(suffix)]
        if len(keys) != 1:
            return {"keys": len(keys)}
        v = recording.get_data(keys[0])
        if prefix.startswith('input'):
            v = v.get('value') if isinstance(v, dict) else None
        if not isinstance(v, dict):
            return {"shape": type(v).__name__}
        c = v.get('file_content')
        cb = c if isinstance(c, bytes) else (c.encode('latin-1') if isinstance(c, str) else None)
        return {"content": filespec.show_bytes(cb, cap=2 * filespec.INLINE_MAX), "content_type": type(c).__name__,
                "path": role_of(v.get('file_path')), "fields": sorted(v)}

    out["raw_in"] = raw('input: fetch')
    out["raw_out"] = raw('output: store', '.output')

    os.remove(paths["RI"])
    if os.path.exists(paths["RO"]):
        os.remove(paths["RO"])
    # the state of the file system the replay starts from is part of the case
    for r, spec in sorted((case.get("pre") or {}).items()):
        if spec is not None and not (r == "PI" and case.get("unwritable")):
            write_file(paths[r], spec)
    del bodies[:]
    del in_errors[:]
    box = []
    with Journal(abs_roles) as j:
        try:
            playback = recorder.play(rid, lambda r: box.append(Op().execute(
                caller(case["in"], 'in', case["in"]["play"], paths["PI"]),
                caller(case["out"], 'out', case["out"]["play"], paths["PO"]),
                paths["PO"], case["out_content"])))
        except Exception as ex:
            out["status"] = "replay-raises"
            out["replay_raises"] = exc_name(ex)
            out["opened_play"] = j.reads()
            out["written"] = [[r, filespec.show_bytes(read_file(paths[r]))] for r in ("RI", "PI")
                              if os.path.exists(paths[r])]
            return out
    out["status"] = "ok"
    out["opened_play"] = j.reads()
    out["bodies_play"] = list(bodies)
    out["play_ret"] = box[0] if box else None
    out["play_exc"] = in_errors[0] if in_errors else None
    out["written"] = [[r, filespec.show_bytes(read_file(paths[r]))] for r in ("RI", "PI") if os.path.exists(paths[r])]

    def holder(outputs):
        vals = [o.value for o in outputs if 'store' in o.key]
        if len(vals) != 1:
            return {"count": len(vals)}
        try:
            h = oh.restore_output_from_recording(vals[0])
            return {"content": filespec.show_bytes(h.file_content), "path": role_of(h.output_file_path)}
        except Exception as ex:
            return {"raises": exc_name(ex)}

    out["holder_rec"] = holder(playback.recorded_outputs)
    out["holder_play"] = holder(playback.playback_outputs)
    # the holder can materialise the file
    try:
        hp = form_path(d, 'holder.bin', forms.get("holder"))
        vals = [o.value for o in playback.recorded_outputs if 'store' in o.key]
        oh.restore_output_from_recording(vals[0]).to_file(hp)
        out["holder_file"] = filespec.show_bytes(read_file(hp))
    except Exception as ex:
        out["holder_file"] = {"raises": exc_name(ex)}
    return out


def run_seq(case):
    d = scratch(case.get("dir") == "unicode")
    try:
        with WorkDir(d):
            return _run_seq(case, d)
    finally:
        shutil.rmtree(d, ignore_errors=True)
        fake_s3.reset()


def _run_seq(case, d):
    """Several recordings (one input file each) made with one recorder on one cassette, then replayed one after
    another with the same call - hence into the same path; observed: the bytes at that path after every replay."""
    name = case["name"]
    side = case["in"]
    forms = case.get("path_form") or {}
    ri, pi = form_path(d, 'ri.bin', forms.get("rec")), form_path(d, 'pi.bin', forms.get("play"))
    lim = case["limit"]
    with EnvVar(lim.get("env")):
        ih = InputInterceptionFileDataHandler(side["index"], name, explicit_limit(lim))
    cassette = make_cassette(case["cassette"], d)
    saved = []
    real_save = cassette.save_recording
    cassette.save_recording = lambda recording: (saved.append(recording.id), real_save(recording))[1]
    recorder = TapeRecorder(cassette)
    recorder.enable_recording()

    @recorder.static_intercept_input('fetch', capture_args=[], data_handler=ih)
    def s_fetch(*a, **k):
        return 'body'

    class Op(object):
        @recorder.intercept_input('fetch', capture_args=[], data_handler=ih)
        def i_fetch(self, *a, **k):
            return 'body'

        @recorder.operation()
        def execute(self, in_call):
            return in_call(self)

    def caller(mode, path):
        extras = [filespec.real_value(a) for a in side["extras"]]
        args, kwargs = filespec.call_args(extras, mode, path, name)
        if side["static"]:
            return lambda op: s_fetch(*args, **kwargs)
        return lambda op: op.i_fetch(*args, **kwargs)

    ids = []
    stamps = case.get("stamps") or [None] * len(case["contents"])
    for spec, stamp in zip(case["contents"], stamps):
        # every recording finds its file at the SAME recorded path, (re)written by the previous holder of the path
        rewrite_file(ri, spec, stamp, case.get("how", "inplace"))
        n = len(saved)
        Op().execute(caller(side["rec"], ri))
        if not case.get("stamps"):
            os.remove(ri)
        if len(saved) != n + 1:
            return {"status": "recording-%d-not-saved" % len(ids)}
        ids.append(saved[-1])
    if case.get("pre") is not None:
        write_file(pi, case["pre"])
    steps, rets = [], []
    for i in case["order"]:
        box = []
        try:
            recorder.play(ids[i], lambda r: box.append(Op().execute(caller(side["play"], pi))))
        except Exception as ex:
            box.append("raises:" + exc_name(ex))
        rets.append("PI" if box and box[0] == pi else (str(box[0]) if box else None))
        steps.append(filespec.show_bytes(read_file(pi)))
    return {"status": "ok", "steps": steps, "rets": rets}


def run_hist(case):
    d = scratch(case.get("dir") == "unicode")
    try:
        return _run_hist(case, d)
    finally:
        shutil.rmtree(d, ignore_errors=True)
        fake_s3.reset()


def _run_hist(case, d):
    """One recorded operation in which the file at ONE path is handed to the file handlers several times - to an
    intercepted input (the function that produces / looks at the file) or to an intercepted output (the function the
    operation hands the file on to) - and is rewritten between interceptions.  Replayed at a different path.
    Observed per step: input - the bytes at the replayed path right after the replayed call; output - the holders
    restored from the recorded and from the replayed output."""
    name = case["name"]
    ri, pi = os.path.join(d, 'ri.bin'), os.path.join(d, 'pi.bin')
    roles = {ri: 'RI', pi: 'PI'}
    lim = case["limit"]
    with EnvVar(lim.get("env")):
        ih = InputInterceptionFileDataHandler(case["in"]["index"], name, explicit_limit(lim))
        oh = OutputInterceptionFileDataHandler(case["out"]["index"], name, explicit_limit(lim))
    cassette = make_cassette(case["cassette"], d)
    saved = []
    real_save = cassette.save_recording
    cassette.save_recording = lambda recording: (saved.append(recording.id), real_save(recording))[1]
    recorder = TapeRecorder(cassette)
    recorder.enable_recording()
    steps = case["steps"]
    how = case.get("how", "inplace")
    state = {"live": True, "journal": None}
    bodies = []

    def produce(path, i):
        rewrite_file(path, steps[i]["content"], steps[i].get("stamp"), how)

    def fetch_body(i):
        bodies.append(i)
        if steps[i]["fresh"]:
            produce(state["path"], i)     # the intercepted function is what writes the file
        return 'body'

    # the step number is the only captured argument: the path is not part of the key (replayed at another path)
    @recorder.static_intercept_input('fetch', capture_args=[CapturedArg(None, 'step')], data_handler=ih)
    def s_fetch(*a, **k):
        return fetch_body(k['step'])

    @recorder.static_intercept_output('store', data_handler=oh)
    def s_store(*a, **k):
        return None

    class Op(object):
        @recorder.intercept_input('fetch', capture_args=[CapturedArg(None, 'step')], data_handler=ih)
        def i_fetch(self, *a, **k):
            return fetch_body(k['step'])

        @recorder.intercept_output('store', data_handler=oh)
        def i_store(self, *a, **k):
            return None

        @recorder.operation()
        def execute(self, path):
            seen = []
            state["path"] = path
            for i, st in enumerate(steps):
                j = state["journal"]
                mark = len(j.reads())
                if st["via"] == "in":
                    extras = [filespec.real_value(a) for a in case["in"]["extras"]]
                    args, kwargs = filespec.call_args(extras, case["in"]["rec" if state["live"] else "play"], path, name)
                    if case["in"]["static"]:
                        s_fetch(*args, step=i, **kwargs)
                    else:
                        self.i_fetch(*args, step=i, **kwargs)
                    seen.append([filespec.show_bytes(read_file(path)), len(j.reads()) - mark])
                else:
                    if st["fresh"]:
                        produce(path, i)        # the operation's own product, also when it is replayed
                    extras = [filespec.real_value(a) for a in case["out"]["extras"]]
                    args, kwargs = filespec.call_args(extras, case["out"]["rec" if state["live"] else "play"], path, name)
                    if case["out"]["static"]:
                        s_store(*args, **kwargs)
                    else:
                        self.i_store(*args, **kwargs)
                    seen.append([None, len(j.reads()) - mark])
            return seen

    with Journal(roles) as j:
        state["journal"] = j
        rec_seen = Op().execute(ri)
    if len(saved) != 1:
        return {"status": "discarded" if not saved else "saved-%d" % len(saved)}
    if os.path.exists(ri):
        os.remove(ri)
    if case.get("pre") is not None:
        write_file(pi, case["pre"])
    state["live"] = False
    del bodies[:]
    box = []
    with Journal(roles) as j:
        state["journal"] = j
        try:
            playback = recorder.play(saved[0], lambda r: box.append(Op().execute(pi)))
        except Exception as ex:
            return {"status": "replay-raises", "replay_raises": exc_name(ex)}
    if not box:
        return {"status": "replay-no-result"}

    def holders(outputs):
        out = {}
        for o in outputs:
            if o.key.startswith('output: store #') and o.key.endswith('.output'):
                n = int(o.key[len('output: store #'):-len('.output')])
                try:
                    out[n] = filespec.show_bytes(oh.restore_output_from_recording(o.value).file_content)
                except Exception as ex:
                    out[n] = {"raises": exc_name(ex)}
        return out

    h_rec, h_play = holders(playback.recorded_outputs), holders(playback.playback_outputs)
    obs_steps = []
    n_out = 0
    for i, st in enumerate(steps):
        if st["via"] == "in":
            obs_steps.append({"restored": box[0][i][0], "reads_rec": rec_seen[i][1]})
        else:
            n_out += 1
            obs_steps.append({"holder_rec": h_rec.get(n_out), "holder_play": h_play.get(n_out),
                              "reads_rec": rec_seen[i][1]})
    return {"status": "ok", "steps": obs_steps, "bodies_play": list(bodies),
            "ri_after_replay": os.path.exists(ri)}


# ---------------------------------------------------------------------------------------------- file kinds / filesystems
PSEUDO = ['/proc/version', '/proc/filesystems', '/proc/self/cmdline']     # st_size 0, content not empty


def other_filesystem():
    """a writable directory on another filesystem than the default temporary directory (None: there is none)"""
    import tempfile
    here = os.stat(tempfile.gettempdir()).st_dev
    for cand in ('/dev/shm', '/run/user/%d' % os.getuid(), '/var/tmp', os.path.expanduser('~'), '/run/shm'):
        try:
            if os.path.isdir(cand) and os.access(cand, os.W_OK) and os.stat(cand).st_dev != here:
                return cand
        except OSError:
            pass
    return None


def release_fifo(path):
    """whoever is blocked opening the FIFO goes on (a reader then sees end of file)"""
    try:
        os.close(os.open(path, os.O_RDWR | os.O_NONBLOCK))
    except OSError:
        pass


def feed_fifo(path, data):
    """producer thread: opens the FIFO for writing (waits for the reader), writes the bytes, closes"""
    def run():
        try:
            fd = os.open(path, os.O_WRONLY)
            try:
                view = memoryview(data)
                while len(view):
                    view = view[os.write(fd, view):]
            finally:
                os.close(fd)
        except OSError:
            pass            # the reader went away early (EPIPE): what was recorded shows it
    t = threading.Thread(target=run)
    t.daemon = True
    t.start()
    return t


def run_env(case):
    """kind "env": one full trip (input + output file handler, TapeRecorder, cassette) where the KIND of the intercepted
    file (regular / pseudo file of procfs whose st_size is 0 / named pipe fed by a producer thread) and the FILESYSTEM of
    the replayed path relative to the default temporary directory (same / another mount, in either direction) vary."""
    import tempfile
    d = scratch()
    extra_dirs, fifos, out = [], [], {"status": "ok"}
    old_tmp = tempfile.tempdir
    watchdog = threading.Timer(20, lambda: [release_fifo(f) for f in fifos])
    watchdog.daemon = True
    try:
        other = other_filesystem() if (case["replay_fs"] == "other" or case["tmpdir"] == "other") else None
        if (case["replay_fs"] == "other" or case["tmpdir"] == "other") and other is None:
            return {"status": "skipped", "why": "one writable filesystem only"}
        content, out_content = filespec.expand(case["content"]), filespec.expand(case["out_content"])
        ri, ro = os.path.join(d, 'ri.bin'), os.path.join(d, 'ro.bin')
        src = case["source"]
        if src == "pseudo":
            ri = case["pseudo"]
            if not os.path.exists(ri) or REAL_GETSIZE(ri) != 0:
                return {"status": "skipped", "why": "no such pseudo file"}
            with REAL_OPEN(ri, 'rb') as f:
                content = f.read()
            write_file(ro, case["out_content"])
        elif src == "fifo":
            os.mkfifo(ri)
            os.mkfifo(ro)
            fifos.extend([ri, ro])
            watchdog.start()
            threads = [feed_fifo(ri, content), feed_fifo(ro, out_content)]
        else:
            write_file(ri, case["content"])
            write_file(ro, case["out_content"])
        out["delivered_in"], out["delivered_out"] = filespec.show_bytes(content), filespec.show_bytes(out_content)
        pdir = d
        if case["replay_fs"] == "other":
            pdir = tempfile.mkdtemp(prefix='files-scratch-%d-' % os.getpid(), dir=other)
            extra_dirs.append(pdir)
        pi, po = os.path.join(pdir, 'pi.bin'), os.path.join(pdir, 'po.bin')
        name = 'path'
        ih = InputInterceptionFileDataHandler(0, name, None)
        oh = OutputInterceptionFileDataHandler(0, name, None)
        cassette = make_cassette(case["cassette"], d)
        saved = []
        real_save = cassette.save_recording
        cassette.save_recording = lambda recording: (saved.append(recording.id), real_save(recording))[1]
        recorder = TapeRecorder(cassette)
        recorder.enable_recording()

        @recorder.static_intercept_input('fetch', capture_args=[], data_handler=ih)
        def s_fetch(path):
            return 'body'

        @recorder.static_intercept_output('store', data_handler=oh)
        def s_store(path):
            return None

        class Op(object):
            @recorder.operation()
            def execute(self, in_path, out_path):
                s_fetch(in_path) if case["in_mode"] == "pos" else s_fetch(path=in_path)
                s_store(out_path) if case["in_mode"] == "pos" else s_store(path=out_path)
                return 'done'

        Op().execute(ri, ro)
        if src == "fifo":
            for f in fifos:
                release_fifo(f)
            for t in threads:
                t.join(5)
        if len(saved) != 1:
            return dict(out, status="discarded" if not saved else "saved-%d" % len(saved))
        if case["tmpdir"] == "other":
            tdir = tempfile.mkdtemp(prefix='files-scratch-%d-tmp-' % os.getpid(), dir=other)
            extra_dirs.append(tdir)
            tempfile.tempdir = tdir            # what TMPDIR pointing at another mount amounts to
        write_file(po, case["out_content"])
        try:
            playback = recorder.play(saved[0], lambda r: Op().execute(pi, po))
        except Exception as ex:
            out["status"] = "replay-raises"
            out["replay_raises"] = exc_name(ex)
            out["cause"] = repr(getattr(ex, '__cause__', None) or ex)[:200]
        out["restored"] = filespec.show_bytes(read_file(pi)) if os.path.exists(pi) else None
        if out["status"] == "ok":
            for which, outputs in (("holder_rec", playback.recorded_outputs), ("holder_play", playback.playback_outputs)):
                vals = [o.value for o in outputs if 'store' in o.key]
                try:
                    out[which] = filespec.show_bytes(oh.restore_output_from_recording(vals[0]).file_content)
                except Exception as ex:
                    out[which] = {"raises": exc_name(ex)}
        return out
    finally:
        tempfile.tempdir = old_tmp
        watchdog.cancel()
        for f in fifos:
            release_fifo(f)
        for x in extra_dirs + [d]:
            shutil.rmtree(x, ignore_errors=True)
        fake_s3.reset()


def run_c20(case):
    return {"b64": run_b64, "above": run_above, "path": run_path, "trip": run_trip, "seq": run_seq,
            "hist": run_hist, "env": run_env}[case["kind"]](case)


if __name__ == '__main__':
    main({"C20": run_c20})
