"""C08 / C13 thorough tier (and two anchor scripts in C13's quick tier): a handful of scripts on REAL processes (real
multiprocessing, real clock, real kill).
Generous margins; a script whose run shows an anomaly is run again twice and only anomalies present in all three
runs are reported (`confirmed`), the others are listed as `inconclusive`."""
import gc
import multiprocessing
import os
import signal
import tempfile
import time
import types

from lib import eqreal
from playback.studio.equalizer import (Equalizer, CompareExecutionConfig, ComparatorResult, EqualityStatus)

import equalizer_sim as S      # projection helpers (proj, rid, unrid)


class Rec(object):
    def __init__(self, r):
        self.id = r


class ServiceError(Exception):
    """pickles (class + self.args = (message,)) and does not unpickle (__init__ wants two arguments): an answer that
    carries one leaves the worker and makes the parent's Queue.get raise TypeError"""

    def __init__(self, code, message):
        super(ServiceError, self).__init__(message)
        self.code = code


class Stuck(BaseException):
    """raised by the watchdog timer inside a parent that blocks for ever (not an Exception: the equalizer's
    catch-all must not turn it into a verdict)"""


class RealPB(object):
    def __init__(self, r, unpicklable=False, unloadable=False):
        self.original_recording = Rec(r)
        self.recorded_outputs = [('rec', r)]
        self.playback_outputs = [('play', r)]
        if unpicklable:
            self.handle = lambda: 0        # cannot cross the process boundary: mp.Queue's feeder thread drops it
        if unloadable:
            self.handle = ServiceError(7, 'service said no')


def _square(conn, x):
    conn.send(x * x)
    conn.close()


def square_in_helper(x, how):
    """what a replayed operation that farms work out does: computes x*x in a helper - a multiprocessing.Process of its own
    ('process') or a thread ('thread') - and waits for it"""
    if how == 'thread':
        import threading
        box = []
        t = threading.Thread(target=lambda: box.append(x * x))
        t.start()
        t.join(10)
        return box[0] if box else None
    recv, send = multiprocessing.Pipe(False)
    p = multiprocessing.Process(target=_square, args=(send, x))
    p.start()
    send.close()
    try:
        return recv.recv() if recv.poll(10) else None
    finally:
        recv.close()
        p.join(10)
        if p.is_alive():
            p.kill()


def open_fds():
    return len(os.listdir('/proc/self/fd'))


WATCHDOG = 15.0     # seconds after which a run that is still going is declared stuck (the scripts take < 4 s)


def run_real_once(case, dedicated=True):
    ids, T = case['ids'], case['timeout']
    beh = dict((S.rid(int(k)), v) for k, v in case['beh'].items())
    fd, log = tempfile.mkstemp(prefix='eqreal_')
    os.close(fd)
    parent = os.getpid()

    def player(r):
        b = beh.get(r, 'equal')
        f = os.open(log, os.O_WRONLY | os.O_APPEND)
        os.write(f, ('%d %s\n' % (os.getpid(), r)).encode())
        os.close(f)
        if b == 'player_raises':
            raise ValueError('boom-player')
        if b.startswith('spawns'):
            # the replayed operation itself uses a helper process / thread (in whichever process it is replayed)
            x = S.unrid(r)
            got = square_in_helper(x, 'thread' if b == 'spawns:thread' else 'process')
            if got != x * x:
                raise ValueError('helper returned %r' % (got,))
        if os.getpid() != parent:
            if b in ('exit0', 'exit1'):
                raise SystemExit(int(b[4:]))
            if b in ('hang', 'hang_deaf'):
                if b == 'hang_deaf':
                    signal.signal(signal.SIGTERM, signal.SIG_IGN)
                time.sleep(120)
            if b.startswith('slow:'):
                time.sleep(int(b[5:]) * eqreal.SLOW_STEP)
            if b == 'drops':
                return RealPB(r, unpicklable=True)
            if b == 'unloadable':
                return RealPB(r, unloadable=True)
        return RealPB(r)

    def extractor(outs):
        kind, r = outs[0]
        if beh.get(r) == 'extractor_raises':
            raise ValueError('boom-extractor')
        return (kind, r)

    data = dict((S.rid(int(k)), v) for k, v in (case.get('data') or {}).items())

    def data_extractor(recording):
        return S.data_for(data, recording.id)

    def comparator(rec, play, **given):
        r = rec[1]
        b = beh.get(r, 'equal')
        if given != S.data_for(data, r) or play[1] != r:
            return ComparatorResult(EqualityStatus.Failed, 'mixed-up-inputs')
        if b == 'comparator_raises':
            raise ValueError('boom-comparator')
        if b.startswith('bare:'):
            return EqualityStatus[b[5:]]
        shaped, verdict = S.shaped_verdict(b, r)
        if shaped:
            return verdict
        if b == 'different':
            return ComparatorResult(EqualityStatus.Different, 'cmp')
        return ComparatorResult(EqualityStatus.Equal, 'cmp')

    mode = case.get('consume', ['full'])[0]
    n = case.get('consume', ['full', None])[1] if mode != 'full' else None

    def id_source():
        for k, i in enumerate(ids):
            if mode == 'iter_raises' and k == n:
                raise S.IdSourceError()
            yield S.rid(i)

    eq = Equalizer(id_source(), player, extractor, comparator, comparison_data_extractor=data_extractor,
                   compare_execution_config=CompareExecutionConfig(
                       keep_results_in_comparison=case['keep'], compare_in_dedicated_process=dedicated,
                       compare_process_recycle_rate=case['rate'], compare_process_timeout=T))
    out, walls = [], []
    outcome = 'completed'
    deadline = time.time() + 60
    kills = set(case.get('kill_idle_after', []))
    dog = {'armed': True, 'fired': 0}

    def on_alarm(signum, frame):
        # fires again every second: the finally block of run_comparison blocks in the same place once more
        if dog['armed']:
            dog['fired'] += 1
            raise Stuck()

    def kill_idle_worker(k):
        """somebody else's SIGKILL hits the worker between two replays (it has answered recording #k and sleeps)"""
        if k in kills:
            time.sleep(0.3 + 0.013 * (k % 5))      # not a multiple of a plausible poll period: no phase lock
            for p in multiprocessing.active_children():
                try:
                    os.kill(p.pid, signal.SIGKILL)
                except OSError:
                    pass
            time.sleep(0.2)

    def loop():
        k = 0
        t = time.time()
        for c in eq.run_comparison():
            walls.append(round(time.time() - t, 2))
            out.append(S.proj(c))
            k += 1
            if mode == 'raise' and k == n:
                raise S.ConsumerError()
            if time.time() > deadline:
                raise TimeoutError()
            kill_idle_worker(k)
            t = time.time()

    intr = {'cancel': False, 'sent': False}
    if mode == 'interrupt':
        # Ctrl-C while recording #n is being replayed: SIGINT to the whole process group, as a terminal does.  Only ever in
        # an interpreter of its own that leads its own session (run_in_own_session): the group holds nothing else.
        assert os.environ.get('VERIF_OWN_SESSION') == '1' and os.getsid(0) == os.getpid() == os.getpgrp()
        import threading
        target = S.rid(ids[n]) if n < len(ids) else None

        def fire():
            end = time.time() + 10
            while time.time() < end and not intr['cancel']:
                try:
                    rows = [l.split() for l in open(log).read().splitlines()]
                except OSError:
                    rows = []
                if any(len(x) == 2 and x[1] == target and int(x[0]) != parent for x in rows):
                    break
                time.sleep(0.05)
            time.sleep(0.3)
            if not intr['cancel']:
                intr['sent'] = True
                os.killpg(os.getpgrp(), signal.SIGINT)
        threading.Thread(target=fire, daemon=True).start()

    old_handler = signal.signal(signal.SIGALRM, on_alarm)
    signal.setitimer(signal.ITIMER_REAL, case.get('watchdog', WATCHDOG), 1.0)
    # case['fd_headroom']: the run gets that many file descriptors more than are open now (soft RLIMIT_NOFILE): a long history
    # under the finite descriptor limit every process has
    old_limit = None
    if case.get('fd_headroom') is not None:
        import resource
        gc.collect()
        old_limit = resource.getrlimit(resource.RLIMIT_NOFILE)
        want = open_fds() + case['fd_headroom']
        if old_limit[0] == resource.RLIM_INFINITY or want < old_limit[0]:
            resource.setrlimit(resource.RLIMIT_NOFILE, (want, old_limit[1]))
    try:
        if mode == 'close':
            gen = eq.run_comparison()
            t = time.time()
            for j in range(n):
                try:
                    c = next(gen)
                except StopIteration:
                    break
                walls.append(round(time.time() - t, 2))
                out.append(S.proj(c))
                kill_idle_worker(j + 1)
                t = time.time()
            gen.close()
            del gen
            outcome = 'closed'
        else:
            try:
                loop()
            except S.ConsumerError:
                outcome = 'consumer-raised'
            except S.IdSourceError:
                outcome = 'iter-raised'
            except TimeoutError:
                outcome = 'stuck'
            except KeyboardInterrupt:
                # the consumer's answer to Ctrl-C: give up the run (the generator is dropped with this frame's reference)
                outcome = 'interrupted' if intr['sent'] else 'escaped:KeyboardInterrupt'
            intr['cancel'] = True
    except SystemExit:
        outcome = 'abort-exit'
    except Stuck:
        dog['armed'] = False
        outcome = 'stuck'
    except Exception as ex:      # pylint: disable=broad-except
        # once the watchdog has broken into a blocked Event.set(), the finally block of run_comparison finds the
        # event's condition half-updated and fails on its own (AssertionError inside notify)
        dog['armed'] = False
        # otherwise: something left run_comparison that is neither the consumer's nor the id source's
        outcome = 'stuck' if dog['fired'] else 'escaped:' + type(ex).__name__
    try:
        gc.collect()
    except Stuck:
        pass
    dog['armed'] = False
    signal.setitimer(signal.ITIMER_REAL, 0)
    signal.signal(signal.SIGALRM, old_handler)
    if old_limit is not None:
        import resource
        resource.setrlimit(resource.RLIMIT_NOFILE, old_limit)
    if dog['fired']:
        outcome = 'stuck'      # also when the interpreter swallowed it inside the finaliser of a dropped generator
    ended = time.time()
    # no worker left: active_children() (which also reaps) must become empty within about a second
    left = multiprocessing.active_children()
    while left and time.time() - ended < 1.5:
        time.sleep(0.05)
        left = multiprocessing.active_children()
    waited = time.time() - ended
    for p in left:                                     # clean up whatever a broken tree left behind
        try:
            os.kill(p.pid, signal.SIGKILL)
        except OSError:
            pass
    served, order = {}, []
    for line in open(log):
        pid, r = line.split()
        if int(pid) == parent:
            continue
        if pid not in served:
            served[pid] = []
            order.append(pid)
        served[pid].append(S.unrid(r))
    os.remove(log)
    return dict(cmps=out, outcome=outcome, walls=walls, children_after=len(left), waited=round(waited, 2),
                served=[served[p] for p in order])


OWN_SESSION_WALL = 45.0


def run_in_own_session(case):
    """run_real_once(case) in an interpreter of its own that leads its own session and process group (scripts that signal
    their whole group).  Whatever happens there, this returns within OWN_SESSION_WALL seconds and the group is gone."""
    import json
    import subprocess
    import sys
    env = dict(os.environ, VERIF_OWN_SESSION='1', PYTHONPATH=os.pathsep.join(p for p in sys.path if p))
    child = subprocess.Popen([sys.executable, os.path.abspath(__file__), '--own-session'], stdin=subprocess.PIPE,
                             stdout=subprocess.PIPE, stderr=subprocess.DEVNULL, env=env, start_new_session=True, text=True)
    try:
        out, _ = child.communicate(json.dumps(case), timeout=OWN_SESSION_WALL)
        lines = [l for l in out.splitlines() if l.startswith('RESULT ')]
        if lines:
            return json.loads(lines[-1][7:])
        return dict(cmps=[], outcome='stuck', walls=[], children_after=0, waited=0.0, served=[],
                    note='the interpreter running the script ended with code %r and no result' % child.returncode)
    except subprocess.TimeoutExpired:
        return dict(cmps=[], outcome='stuck', walls=[], children_after=0, waited=0.0, served=[],
                    note='no result within %.0f s' % OWN_SESSION_WALL)
    finally:
        try:
            os.killpg(child.pid, signal.SIGKILL)
        except OSError:
            pass
        try:
            child.communicate(timeout=5)
        except Exception:       # pylint: disable=broad-except
            pass


def run_case(case):
    runs = []
    for attempt in range(3):
        run = run_in_own_session(case) if case.get('consume', ['full'])[0] == 'interrupt' else run_real_once(case)
        if attempt == 0 and not eqreal.G.has(case, ['exit0', 'exit1', 'hang', 'hang_deaf', 'drops', 'unloadable']) \
                and case.get('consume', ['full'])[0] == 'full' and not case.get('kill_idle_after'):
            run['inproc'] = run_real_once(case, dedicated=False)['cmps']
        run['anomalies'] = eqreal.anomalies(case, run)
        runs.append(run)
        if not run['anomalies']:
            break
    keys = [set((p, s) for p, s, _ in r['anomalies']) for r in runs]
    confirmed = set.intersection(*keys) if len(runs) == 3 else set()
    seen = set.union(*keys)
    obs = dict(runs[-1])
    obs['runs'] = len(runs)
    obs['confirmed'] = [[p, s, m] for p, s, m in runs[-1]['anomalies'] if (p, s) in confirmed]
    obs['inconclusive'] = sorted('%s/%s' % ps for ps in seen - confirmed)
    obs['all_walls'] = [r['walls'] for r in runs]
    return obs


if __name__ == '__main__':
    import json
    import sys
    if sys.argv[1:] == ['--own-session']:
        # a fresh interpreter inherits IGNORED signals from whoever started it (the driver process also runs simulated workers
        # in-process: whatever the worker's entry point does to signal dispositions has happened there): Ctrl-C as in a shell
        signal.signal(signal.SIGINT, signal.default_int_handler)
        signal.signal(signal.SIGTERM, signal.SIG_DFL)
        signal.pthread_sigmask(signal.SIG_UNBLOCK, [signal.SIGINT, signal.SIGTERM, signal.SIGALRM])
        result = run_real_once(json.loads(sys.stdin.read()))
        sys.stdout.write('RESULT ' + json.dumps(result) + '\n')
        sys.stdout.flush()
        os._exit(0)      # (no interpreter shutdown: it would join a worker that a broken tree left behind)
