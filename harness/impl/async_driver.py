"""C12: the REAL AsyncRecordOnlyTapeCassette / AsyncRecording under deterministic schedules.

Every logical thread (the harness "main", the cassette's own flusher thread, 1..3 producers) runs in
a real OS thread, but exactly one of them runs at any time: a baton is handed over at *yield points*
and a policy (explicit token schedule / explicit choice list / bounded exhaustive exploration /
seeded random walk) decides who continues.  Yield points are

  * the synchronisation primitives of the module under test - `Thread`, `Lock`, `Event` are substituted
    as module attributes of async_record_only_tape_cassette (DESIGN 3.3), nothing in the classes is edited;
  * the entry of every call that reaches the wrapped (spy) cassette / recording - so producers can run
    *while* the flusher is inside a storage operation;
  * producer call boundaries;
  * with granularity "line": every source line of the playback files involved (sys.settrace), which gives
    preemption between the individual statements of _flush_recording / _add_async_operation / close.

The wrapped cassette is a spy subclass of the real InMemoryTapeCassette.  Observables are canonical:
recordings are ordinals, keys small ints, values plain ints or type-exact tagged values (enc), exceptions type names;
no ids, times or addresses.

A thorough-tier mode runs the same workloads with real, free-running threads (direct predicate only).
"""
import ast
import itertools
import json
import re
import os
import random
import sys
import threading
import time

from driver_common import main
from lib.pyvals import to_py, from_py

import playback.recording as _rec_mod
import playback.tape_cassette as _tc_mod
import playback.recordings.memory.memory_recording as _mrec_mod
import playback.tape_cassettes.asynchronous.async_record_only_tape_cassette as amod
from playback.recordings.memory.memory_recording import MemoryRecording
from playback.tape_cassettes.in_memory.in_memory_tape_cassette import InMemoryTapeCassette


def _src(m):
    f = m.__file__
    return f[:-1] if f.endswith('.pyc') else f


TARGET_FILES = {_src(amod), _src(_rec_mod), _src(_tc_mod), _src(_mrec_mod)}
OPCODE_FILE = _src(amod)
HANG_S = 20.0
STEP_LIMIT = 6000
RUN_WALL_S = 90.0       # wall-clock watchdog of one scheduled run (a primitive that sleeps for real inside a spin loop)
CALL_YIELDS = 400       # yield points one caller's request may pass at most (HEAD: < 10 atomic, < 80 at opcode level)
ROLE_ORDER = {'producer': 0, 'main': 1, 'flusher': 2}

S = None            # the scheduler of the run in progress (None: spies and primitives are inert / real threads)
SPY_CTX = None      # the spy context of the run in progress


class Abort(BaseException):
    """Unwinds a logical thread when a run is abandoned (deadlock, hang, step limit)."""


class InjectedStorageError(Exception):
    pass


class InjectedIOError(IOError):
    pass


FAIL_EXC = [InjectedStorageError, InjectedIOError, ValueError, AssertionError]


# --------------------------------------------------------------------------------------------------
# scheduler
# --------------------------------------------------------------------------------------------------
class LT(object):
    def __init__(self, tid, role, prod=None):
        self.tid, self.role, self.prod = tid, role, prod
        self.sem = threading.Semaphore(0)
        self.state = 'new'
        self.block = None
        self.real = None
        self.exc = None
        self.in_storage = 0
        self.in_call = False
        self.call_locked = False
        self.ops_done = 0
        self.yields = 0
        self.call_yields = 0


class Sched(object):
    def __init__(self, policy, gran, step_limit=STEP_LIMIT):
        self.policy, self.gran = policy, gran
        self.step_limit = step_limit
        self.threads = []
        self.main = LT(0, 'main')
        self.main.state = 'run'
        self.threads.append(self.main)
        self.cur = self.main
        self.trace = []
        self.taken = []
        self.info = []
        self.aborting = False
        self.problems = []
        self.viol = set()
        self.setup_done = False
        self.closed = False
        self.nyield = 0
        self.t0 = time.monotonic()
        self.stalled = set()      # callers found unable to finish a request while the flusher was inside a storage call
        self.tracer = self._make_tracer() if gran in ('line', 'opcode') else None

    # -- helpers used by policies
    def producer(self, i):
        for t in self.threads:
            if t.role == 'producer' and t.prod == i:
                return t
        return None

    def flusher(self):
        for t in self.threads:
            if t.role == 'flusher':
                return t
        return None

    def producers_done(self):
        return all(t.state == 'done' for t in self.threads if t.role == 'producer')

    def _make_tracer(self):
        sched = self

        opcodes = self.gran == 'opcode'

        def local(frame, event, arg):
            # (no stepping while main sets up: the flusher idling next to create_new_recording adds nothing)
            if (event == 'line' or event == 'opcode') and S is sched and sched.setup_done and not sched.aborting:
                sched.yield_point('line')
            return local

        def glob(frame, event, arg):
            if event == 'call' and frame.f_code.co_filename in TARGET_FILES:
                if opcodes and sched.setup_done and frame.f_code.co_filename == OPCODE_FILE:
                    frame.f_trace_opcodes = True     # preemption between the bytecodes of the module under test
                return local
            return None
        return glob

    def _enabled(self, t):
        b = t.block
        if b is None:
            return True
        k = b[0]
        if k == 'lock':
            return b[1].owner is None
        if k == 'event':
            return b[1].flag or b[2]
        if k == 'join':
            return b[1].state == 'done'
        if k == 'joinall':
            return all(x.state == 'done' for x in b[1])
        if k == 'cond':
            return b[2] or b[3][0]          # timed wait (the timer can fire at any moment) or notified
        return True

    def _default(self, me, en, kind):
        if me in en and kind != 'wait':
            return me
        others = [t for t in en if t is not me]
        if not others:
            return me
        return min(others, key=lambda t: (ROLE_ORDER[t.role], t.tid))

    def abort(self, why):
        if why not in self.problems:
            self.problems.append(why)
        self.aborting = True
        for t in self.threads:
            t.sem.release()

    def _park(self, me):
        if not me.sem.acquire(timeout=HANG_S):
            self.abort('hang')
            raise Abort()
        if self.aborting:
            raise Abort()

    def _pick(self, me, kind):
        en = [t for t in self.threads if t.state != 'done' and self._enabled(t)]
        if not en:
            return None
        k = self.nyield
        self.nyield += 1
        dflt = self._default(me, en, kind)
        free_all = me not in en
        nxt = self.policy.choose(self, k, me, en, dflt, kind)
        if nxt not in en:
            nxt = dflt
        self.taken.append(nxt.tid)
        # cost-free alternatives: when the current thread cannot continue; at a timed wait, switching away
        self.info.append((dflt.tid, [t.tid for t in en], free_all, kind == 'wait', me.tid))
        return nxt

    def yield_point(self, kind):
        if self.aborting:
            if kind in ('post-release',):
                return
            raise Abort()
        me = self.cur
        me.yields += 1
        if self.nyield > self.step_limit:
            self.abort('step-limit')
            raise Abort()
        if self.nyield % 256 == 0 and time.monotonic() - self.t0 > RUN_WALL_S:
            self.abort('hang')
            raise Abort()
        if me.in_call:
            # "callers never wait for the wrapped storage": a request that keeps passing yield points (polling a
            # condition / an event / a lock with a timeout) while the flusher sits inside a storage call is waiting for it
            me.call_yields += 1
            if me.call_yields > CALL_YIELDS and me not in self.stalled:
                self.stalled.add(me)
                f = self.flusher()
                if f is not None and f.in_storage > 0:
                    self.viol.add('caller-waits-for-storage')
                else:
                    self.viol.add('caller-call-does-not-return')
        nxt = self._pick(me, kind)
        if nxt is None:
            self.abort('deadlock')
            raise Abort()
        if nxt is not me:
            self.cur = nxt
            nxt.sem.release()
            self._park(me)
        me.block = None

    def spawn(self, role, fn, prod=None):
        lt = LT(len(self.threads), role, prod)
        self.threads.append(lt)
        sched = self

        def body():
            lt.sem.acquire()
            if sched.aborting:
                lt.state = 'done'
                return
            lt.state = 'run'
            if sched.tracer is not None:
                sys.settrace(sched.tracer)
            try:
                fn()
                if role == 'flusher':
                    sched.trace.append(['D'])
            except Abort:
                pass
            except BaseException as ex:   # the thread died
                lt.exc = type(ex).__name__
                if role == 'flusher':
                    sched.viol.add('flusher-died:' + lt.exc)
                else:
                    sched.problems.append('thread-died:%s:%s' % (role, lt.exc))
            finally:
                sys.settrace(None)
                lt.state = 'done'
                sched._on_exit(lt)
        lt.real = threading.Thread(target=body, name='lt-%d-%s' % (lt.tid, role))
        lt.real.daemon = True
        lt.real.start()
        return lt

    def _on_exit(self, lt):
        if self.aborting:
            return
        if all(t.state == 'done' for t in self.threads):
            return
        nxt = self._pick(lt, 'exit')
        if nxt is None:
            self.abort('deadlock')
            return
        self.cur = nxt
        nxt.sem.release()

    # -- instrumentation callbacks
    def on_acquire(self, me):
        if me.role == 'flusher':
            self.trace.append(['L'])
        elif me.role == 'producer' and me.in_call and not me.call_locked:
            me.call_locked = True
            self.trace.append(['P', me.prod])

    def on_release(self, me):
        if me is not None and me.role == 'flusher':
            self.trace.append(['S'])

    def note_block(self, me, lock):
        owner = lock.owner
        if owner is not None and owner.in_storage > 0 and me.role in ('producer', 'main'):
            self.viol.add('caller-blocked-by-storage-call')

    def note_wait(self, me):
        """a caller's request goes to sleep on a condition / semaphore: if the flusher is inside a storage call at that
        moment and is the only one who can wake it, the caller waits for the wrapped storage"""
        f = self.flusher()
        if me.role == 'producer' and me.in_call and f is not None and f.in_storage > 0:
            others = [t for t in self.threads if t.role == 'producer' and t is not me and t.state != 'done']
            if not others:
                self.viol.add('caller-waits-for-storage')
                self.stalled.add(me)


class SLock(object):
    def __init__(self):
        self.owner = None

    def acquire(self, blocking=True, timeout=-1):
        s = S
        me = s.cur
        s.yield_point('pre-acquire')
        while self.owner is not None:
            if not blocking:
                return False
            if self.owner is me:
                s.abort('self-deadlock')
                raise Abort()
            s.note_block(me, self)
            me.block = ('lock', self)
            s.yield_point('blocked')
        self.owner = me
        s.on_acquire(me)
        return True

    def release(self):
        s = S
        me = self.owner
        self.owner = None
        if s is None:
            return
        s.on_release(me)
        s.yield_point('post-release')

    def locked(self):
        return self.owner is not None

    def __enter__(self):
        return self.acquire()

    def __exit__(self, *exc):
        self.release()


class SEvent(object):
    def __init__(self):
        self.flag = False

    def is_set(self):
        s = S
        me = s.cur
        s.yield_point('is_set')
        v = self.flag
        if me.role == 'flusher':
            s.trace.append(['K', bool(v)])
        return v

    isSet = is_set

    def set(self):
        s = S
        self.flag = True
        s.closed = True
        s.trace.append(['C'])
        s.yield_point('post-set')

    def clear(self):
        self.flag = False

    def wait(self, timeout=None):
        s = S
        me = s.cur
        if me.role == 'flusher':
            s.trace.append(['W'])
        if not self.flag:
            me.block = ('event', self, timeout is not None)
        s.yield_point('wait')
        if me.role == 'flusher':
            s.trace.append(['A'])
        return self.flag


class SCondition(object):
    """threading.Condition over a scheduled lock (whatever the module under test builds on top of its lock to make
    a thread wait: bounded buffers, hand-shakes).  wait() releases the lock, is enabled again when notified or - timed
    wait - at any moment (the timer may fire), and re-acquires the lock."""
    def __init__(self, lock=None):
        self._lock = lock if lock is not None else SLock()
        self.waiters = []
        self.acquire = self._lock.acquire
        self.release = self._lock.release

    def __enter__(self):
        return self._lock.__enter__()

    def __exit__(self, *exc):
        return self._lock.__exit__(*exc)

    def wait(self, timeout=None):
        s = S
        me = s.cur
        if self._lock.owner is not me:
            raise RuntimeError("cannot wait on un-acquired lock")
        cell = [False]
        self.waiters.append(cell)
        s.note_wait(me)
        self._lock.owner = None
        s.on_release(me)
        me.block = ('cond', self, timeout is not None, cell)
        s.yield_point('wait')
        if cell in self.waiters:
            self.waiters.remove(cell)
        # re-acquire (no trace event of its own for a producer: it is the same request)
        while self._lock.owner is not None:
            s.note_block(me, self._lock)
            me.block = ('lock', self._lock)
            s.yield_point('blocked')
        self._lock.owner = me
        if me.role == 'flusher':
            s.trace.append(['L'])
        return cell[0]

    def wait_for(self, predicate, timeout=None):
        r = predicate()
        while not r:
            self.wait(timeout)
            r = predicate()
            if timeout is not None and not r:
                # (a timed wait_for gives up at some point: after one more round here)
                self.wait(timeout)
                return predicate()
        return r

    def notify(self, n=1):
        if self._lock.owner is not S.cur:
            raise RuntimeError("cannot notify on un-acquired lock")
        for cell in self.waiters[:n]:
            cell[0] = True
        del self.waiters[:n]

    def notify_all(self):
        self.notify(len(self.waiters))

    notifyAll = notify_all


class SSemaphore(object):
    """threading.Semaphore / BoundedSemaphore under the scheduler"""
    def __init__(self, value=1):
        self.value = value
        self.bound = None

    def acquire(self, blocking=True, timeout=None):
        s = S
        me = s.cur
        s.yield_point('pre-acquire')
        while self.value <= 0:
            if not blocking:
                return False
            s.note_wait(me)
            me.block = ('cond', self, timeout is not None, _SemCell(self))
            s.yield_point('wait')
            if timeout is not None and self.value <= 0:
                return False
        self.value -= 1
        return True

    def release(self, n=1):
        if self.bound is not None and self.value + n > self.bound:
            raise ValueError("Semaphore released too many times")
        self.value += n
        if S is not None:
            S.yield_point('post-release')

    __enter__ = acquire

    def __exit__(self, *exc):
        self.release()


class _SemCell(object):
    def __init__(self, sem):
        self.sem = sem

    def __getitem__(self, i):
        return self.sem.value > 0


def SBoundedSemaphore(value=1):
    x = SSemaphore(value)
    x.bound = value
    return x


# what is substituted in the module under test (only the names it actually imported)
SUBST = dict(Thread=None, Lock=None, RLock=None, Event=None, Condition=None, Semaphore=None, BoundedSemaphore=None)


def substitute():
    """-> saved attributes; Thread / Lock / Event always, Condition / Semaphore / RLock if the module has them"""
    table = dict(Thread=SThread, Lock=SLock, Event=SEvent, Condition=SCondition, Semaphore=SSemaphore,
                 BoundedSemaphore=SBoundedSemaphore)
    saved = {}
    for name, cls in table.items():
        if hasattr(amod, name) or name in ('Thread', 'Lock', 'Event'):
            saved[name] = getattr(amod, name, None)
            setattr(amod, name, cls)
    return saved


def restore(saved):
    for name, old in saved.items():
        if old is None:
            if hasattr(amod, name):
                delattr(amod, name)
        else:
            setattr(amod, name, old)


class SThread(threading.Thread):
    def __init__(self, group=None, target=None, name=None, args=(), kwargs=None, daemon=None):
        threading.Thread.__init__(self, group=group, target=target, name=name, args=args, kwargs=kwargs,
                                  daemon=daemon)
        self._lt = None

    def start(self):
        if self._lt is not None:
            raise RuntimeError("threads can only be started once")
        self._lt = S.spawn('flusher', self.run)
        S.yield_point('post-start')

    def join(self, timeout=None):
        if self._lt is None:
            raise RuntimeError("cannot join thread before it is started")
        s = S
        me = s.cur
        if self._lt.state != 'done':
            me.block = ('join', self._lt)   # the timeout is assumed long enough (partial, see notes)
        s.yield_point('join')

    def is_alive(self):
        return self._lt is not None and self._lt.state != 'done'


# --------------------------------------------------------------------------------------------------
# policies
# --------------------------------------------------------------------------------------------------
class Fixed(object):
    """overrides: yield index -> thread id; everything else by default"""
    def __init__(self, overrides):
        self.ov = overrides

    def choose(self, s, k, me, en, dflt, kind):
        t = self.ov.get(k)
        if t is not None:
            for x in en:
                if x.tid == t:
                    return x
        return dflt


class Tokens(object):
    """["P", i]: producer i performs one complete request, uninterrupted;  ["F"]: the flusher advances to its next
    yield point;  ["C"]: main signals close (only once every producer is done).  Afterwards: default."""
    def __init__(self, tokens):
        self.toks = [list(t) for t in tokens]
        self.i = 0
        self.start = None

    def _next(self):
        self.i += 1
        self.start = None

    def choose(self, s, k, me, en, dflt, kind):
        if not s.setup_done:
            return dflt
        while self.i < len(self.toks):
            tok = self.toks[self.i]
            if tok[0] == 'P':
                p = s.producer(tok[1])
                if p is None or p.state == 'done':
                    self._next()
                    continue
                if self.start is None:
                    self.start = p.ops_done
                if p.ops_done > self.start:
                    self._next()
                    continue
                if p in s.stalled:
                    # the request cannot finish by itself (it polls for something only the flusher provides):
                    # recorded as a violation by the scheduler; from now on the flusher gets a step whenever the
                    # caller yields, so that the run ends
                    f = s.flusher()
                    if f is not None and f in en and me is p:
                        return f
                if p in en:
                    return p
                b = p.block
                if b is not None and b[0] == 'lock' and b[1].owner in en:
                    return b[1].owner
                return dflt
            if tok[0] == 'F':
                f = s.flusher()
                if f is None or f.state == 'done' or f not in en:
                    self._next()
                    continue
                if self.start is None:
                    self.start = f.yields
                    return f
                if f.yields > self.start:
                    self._next()
                    continue
                return f
            if tok[0] == 'C':
                if s.closed or not s.producers_done():
                    self._next()
                    continue
                if s.main in en:
                    return s.main
                self._next()
                continue
            self._next()
        return dflt


class RandomWalk(object):
    def __init__(self, seed, p, horizon=600):
        self.rng = random.Random(seed)
        self.p = p
        self.horizon = horizon

    def choose(self, s, k, me, en, dflt, kind):
        if not s.setup_done or k > self.horizon:
            return dflt
        if me not in en or kind == 'wait' or self.rng.random() < self.p:
            return en[self.rng.randrange(len(en))]
        return dflt


# --------------------------------------------------------------------------------------------------
# spy wrapped cassette (real InMemoryTapeCassette / MemoryRecording underneath)
# --------------------------------------------------------------------------------------------------
class SpyCtx(object):
    def __init__(self, fails, delay=0.0):
        self.fails = fails          # {(rec ordinal, kind, args tuple): exception index}
        self.log = []               # [rec, kind, args, ok, role]
        self.closed_at = None
        self.saved_at_close = None
        self.delay = delay
        self.real_threads = None    # real-thread mode: idents of caller threads


def _spy_call(rec_ord, kind, args, effect):
    ctx = SPY_CTX
    s = S
    entry = [rec_ord, kind, list(args), None, None]
    me = None
    if s is not None:
        me = s.cur
        entry[4] = me.role
        if me.role != 'flusher':
            s.viol.add('storage-call-on-caller-thread')
        me.in_storage += 1
        if me.role == 'flusher':
            s.trace.append(['X'])
    elif ctx.real_threads is not None:
        entry[4] = 'caller' if threading.get_ident() in ctx.real_threads else 'flusher'
    ctx.log.append(entry)
    try:
        if s is not None:
            s.yield_point('spy-enter')
        elif ctx.delay:
            ctx.in_storage_since = time.monotonic()
            time.sleep(ctx.delay)
        f = ctx.fails.get((rec_ord, kind, ident(kind, args)))
        if f is not None:
            entry[3] = False
            raise FAIL_EXC[f % len(FAIL_EXC)]("injected failure of %s on r%d" % (kind, rec_ord))
        try:
            effect()
        except Exception:
            entry[3] = False
            raise
        entry[3] = True
    finally:
        if me is not None:
            me.in_storage -= 1
        if s is None and ctx.delay:
            ctx.in_storage_since = None


# Key / metadata-key / category TEXTS.  A workload names keys by small ints; which text stands for key n is the case's
# "naming" (default: k<n>, m<n>, category "cat").  Key and category texts are free text of the recorder's user - the
# TapeRecorder's own input keys embed the captured arguments as json, categories are e.g. web routes - and no part of the
# property depends on them: every naming is a bijection number <-> text with exactly one digit group in a key text.
NAMINGS = {
    None: (u'k%d', u'm%d', u'cat'),
    "tape-recorder": (u'input: fetch args={"py/tuple": [%d]}, kwargs=[]', u'm%d', u'cat'),
    "route-category": (u'k%d', u'm%d', u'GET /users/{id}'),
    "format-fields": (u'{k%d}', u'{m%d}', u'{0}'),
    "lone-brace": (u'k%d}', u'm%d{', u'cat{'),
    "percent": (u'%%s k%d %%(x)s %%', u'm%d %%d', u'c%%s'),
    "unicode": (u'cl\u00e9 %d \u2713', u'm%d \u00e9', u'cat\u00e9gorie'),
}
NAMING = NAMINGS[None]
_NUM = re.compile(r'\d+')


def kname(n):
    return NAMING[0] % n


def mname(n):
    return NAMING[1] % n


def category():
    return NAMING[2]


def _key_num(k):
    return int(_NUM.search(k).group())


# Values.  A value of a workload is a plain JSON int (what the short and long workloads always used: unique per request)
# or a tagged value of lib.pyvals ({"t": "none"}, {"t": "bool", ..}, {"t": "float", "r": "1.0"}, containers ..): None,
# booleans / ints / floats that compare equal, empty containers.  Observables are TYPE-EXACT: a stored value is written
# as a plain JSON int only if it is exactly an `int` (True is not 1, 1.0 is not 1), anything else as its tagged form.
def dec(v):
    """workload value -> the Python object passed to the API (containers: a fresh object per call)"""
    return to_py(v) if isinstance(v, dict) else v


def enc(v):
    """Python object found in a recording / received by the spy -> canonical, type-exact JSON"""
    return v if type(v) is int else from_py(v)


def vkey(e):
    """hashable form of an encoded value (identification of storage calls, failure table)"""
    return e if type(e) is int else json.dumps(e, sort_keys=True)


class SpyRecording(MemoryRecording):
    def _ord(self):
        return int(self.id.rsplit('/r', 1)[1])

    def set_data(self, key, value):
        _spy_call(self._ord(), 'set', (_key_num(key), vkey(enc(value))),
                  lambda: MemoryRecording.set_data(self, key, value))

    def add_metadata(self, metadata):
        items = tuple((_key_num(k), vkey(enc(v))) for k, v in metadata.items())
        _spy_call(self._ord(), 'meta', items, lambda: MemoryRecording.add_metadata(self, metadata))


class SpyCassette(InMemoryTapeCassette):
    def __init__(self):
        InMemoryTapeCassette.__init__(self)
        self.created = []

    def create_new_recording(self, category):
        rec = SpyRecording(u'%s/r%d' % (category, len(self.created)))
        self.created.append(rec)
        return rec

    def save_recording(self, recording):
        _spy_call(recording._ord(), 'save', (), lambda: InMemoryTapeCassette.save_recording(self, recording))

    def close(self):
        ctx = SPY_CTX
        if ctx.closed_at is None:
            ctx.closed_at = len(ctx.log)
            ctx.saved_at_close = contents(self)
        InMemoryTapeCassette.close(self)


def _dict_items(d, prefix):
    return sorted(([_key_num(k), enc(v)] for k, v in d.items()), key=lambda kv: kv[0])


def contents(spy):
    out = []
    for rid in list(spy._recordings.keys()):
        r = spy.get_recording(rid)
        out.append([int(rid.rsplit('/r', 1)[1]), _dict_items(r.recording_data, 'k'), _dict_items(r.get_metadata(), 'm')])
    return sorted(out)


def live_state(spy):
    return [[i, _dict_items(r.recording_data, 'k'), _dict_items(r.recording_metadata, 'm'), bool(r._closed)]
            for i, r in enumerate(spy.created)]


# --------------------------------------------------------------------------------------------------
# workloads
# --------------------------------------------------------------------------------------------------
def op_args(op):
    if op['k'] == 'set':
        return (op['key'], vkey(op['val']))
    if op['k'] in ('meta', 'metamut'):
        return tuple((k, vkey(v)) for k, v in op['items'])
    return ()


def spy_kind(op):
    return 'meta' if op['k'] == 'metamut' else op['k']


def ident(kind, args):
    """what identifies a storage call as a particular request: recording, kind and arguments (type-exact: vkey); the
    values of the schedule-oriented workloads are unique per request, requests of the value-shape workloads may be
    identical (then they are interchangeable, see identify); a metadata call is identified by its first item (the dict
    may have grown since the request, finding F12)"""
    args = tuple(tuple(a) if isinstance(a, list) else a for a in args)
    return args[:1] if kind == 'meta' else args


def fail_table(case):
    t = {}
    for p, ops in enumerate(case['work']):
        for op in ops:
            if op.get('fail'):
                t[(op['rec'], spy_kind(op), ident(spy_kind(op), op_args(op)))] = op['fail']
    return t


def request(cas, recs, op, late=False):
    """One request through the public API of the cassette under test (or of the synchronous twin)."""
    r = recs[op['rec']]
    if op['k'] == 'set':
        r.set_data(kname(op['key']), dec(op['val']))
    elif op['k'] == 'meta':
        r.add_metadata(dict((mname(k), dec(v)) for k, v in op['items']))
    elif op['k'] == 'metamut':
        d = dict((mname(k), dec(v)) for k, v in op['items'])
        if late:        # (twin only) what the request would be if the caller's later change came first
            d[mname(op['mkey'])] = op['mval']
        r.add_metadata(d)
        d[mname(op['mkey'])] = op['mval']      # the caller goes on using its own dict
    elif op['k'] == 'abort':
        cas.abort_recording(r)
    else:
        cas.save_recording(r)


def run_twin(case, order, late=False):
    """Synchronous recording of the requests [(producer, idx)] in the given order, straight into the same spy class."""
    global SPY_CTX, S
    old_ctx, old_s = SPY_CTX, S
    SPY_CTX, S = SpyCtx(fail_table(case)), None
    try:
        spy = SpyCassette()
        recs = [spy.create_new_recording(category()) for _ in range(case['nrec'])]
        flags = []          # outcome per request that goes to the storage (an abort does not: T:59 closes the object)
        for p, i in order:
            ab = case['work'][p][i]['k'] == 'abort'
            try:
                request(spy, recs, case['work'][p][i], late=late)
                if not ab:
                    flags.append(True)
            except Exception:
                if not ab:
                    flags.append(False)
        spy.close()
        return dict(saved=contents(spy), live=live_state(spy), flags=flags)
    finally:
        SPY_CTX, S = old_ctx, old_s


def identify(case, log, enq_order):
    """Map the calls seen by the spy to requested operations: same recording, kind and arguments.  Identical
    requests (saves of one recording issued by several producers, repeated writes of one value) are interchangeable:
    among them prefer the one whose producer has nothing earlier outstanding, then the earliest enqueued."""
    pool = {}
    for p, i in enq_order:
        op = case['work'][p][i]
        pool.setdefault((op['rec'], spy_kind(op), ident(spy_kind(op), op_args(op))), []).append((p, i))
    outstanding = {}
    for p, i in enq_order:
        outstanding.setdefault(p, set()).add(i)
    applied, phantom = [], []
    for rec, kind, args, ok, role in log:
        cands = pool.get((rec, kind, ident(kind, args)))
        if cands:
            # (a single candidate is picked either way: keeps long histories linear)
            pick = cands[0] if len(cands) == 1 else \
                next((c for c in cands if min(outstanding[c[0]]) == c[1]), cands[0])
            cands.remove(pick)
            outstanding[pick[0]].discard(pick[1])
            applied.append([pick[0], pick[1], bool(ok)])
        else:
            phantom.append([rec, kind, list(args)])
    return applied, phantom


def place_aborts(case, order, aborts, trace):
    """Where the synchronous twin carries out the accepted abort requests: an accepted request on the same recording
    whose call began before the abort's call ended passed its closed-check before the recording was closed, so it comes
    first; everything on that recording that began later comes after the abort."""
    if not aborts:
        return order
    begin, end = {}, {}
    for t, ev in enumerate(trace):
        if ev[0] == 'B':
            begin[(ev[1], ev[2])] = t
        elif ev[0] == 'E':
            end[(ev[1], ev[2])] = t
    order = list(order)
    for a in aborts:
        rec = case['work'][a[0]][a[1]]['rec']
        at = 0
        for k, x in enumerate(order):
            if case['work'][x[0]][x[1]]['rec'] == rec and begin.get(x, -1) < end.get(a, 10**9):
                at = k + 1
        order.insert(at, a)
    return order


# --------------------------------------------------------------------------------------------------
# one scheduled run
# --------------------------------------------------------------------------------------------------
def run_once(case, policy, gran):
    global S, SPY_CTX
    # (the step limit grows with the history: a long workload is not a run that fails to terminate)
    sched = Sched(policy, gran, STEP_LIMIT + 16 * sum(len(ops) for ops in case['work']))
    ctx = SpyCtx(fail_table(case))
    saved_attrs = substitute()
    S, SPY_CTX = sched, ctx
    calls = [[None] * len(ops) for ops in case['work']]   # per request: 'ok' | 'refused' | 'raised:<type>'
    spy = SpyCassette()
    state = {}
    old_trace = sys.gettrace()
    try:
        if sched.tracer is not None:
            sys.settrace(sched.tracer)
        cas = amod.AsyncRecordOnlyTapeCassette(spy, flush_interval=0.01, timeout_on_close=5)
        state['cas'] = cas
        cas.start()
        recs = [cas.create_new_recording(category()) for _ in range(case['nrec'])]

        def body(p, ops):
            def run():
                me = sched.cur
                for i, op in enumerate(ops):
                    sched.yield_point('op-start')
                    me.in_call, me.call_locked, me.call_yields = True, False, 0
                    sched.trace.append(['B', p, i])
                    if op['k'] == 'abort':
                        # carried out at the caller, takes no lock; logged at the start of the call: whoever is refused
                        # because of it comes later
                        sched.trace.append(['Q', p])
                    try:
                        request(cas, recs, op)
                        res = 'ok'
                    except AssertionError:
                        res = 'refused'
                    except Exception as ex:
                        res = 'raised:' + type(ex).__name__
                    me.in_call = False
                    if res == 'refused' and not me.call_locked:
                        sched.trace.append(['R', p])
                    if res != 'refused' and not me.call_locked and op['k'] != 'abort':
                        sched.trace.append(['N', p, i])    # returned without ever taking the lock
                    calls[p][i] = res if not (res == 'refused' and me.call_locked) else 'raised:AssertionError'
                    sched.trace.append(['E', p, i])
                    me.ops_done += 1
                    sched.yield_point('op-end')
            return run
        prods = [sched.spawn('producer', body(p, ops), prod=p) for p, ops in enumerate(case['work'])]
        sched.setup_done = True
        sched.main.block = ('joinall', prods)
        sched.yield_point('join')
        cas.close()
        rest = [t for t in sched.threads if t is not sched.main and t.state != 'done']
        if rest:
            sched.viol.add('thread-alive-after-close')
            sched.main.block = ('joinall', rest)
            sched.yield_point('join')
    except Abort:
        pass
    except Exception as ex:
        sched.problems.append('main-raised:%s:%s' % (type(ex).__name__, ex))
        sched.abort('main-raised')
    finally:
        sys.settrace(old_trace)
        sched.main.state = 'done'
        if sched.aborting:
            for t in sched.threads:
                t.sem.release()
        for t in sched.threads:
            if t.real is not None:
                t.real.join(2.0)
        restore(saved_attrs)
        S = None
    try:
        cas = state.get('cas')
        buf = getattr(cas, '_recording_operation_buffer', None)
        leftover = len([x for x in buf if x is not None]) if buf is not None else 0
    except Exception:
        leftover = -1
    # enqueue order as seen at the lock; requests accepted = call returned normally
    when = {}
    started = {}
    for t, ev in enumerate(sched.trace):
        if ev[0] == 'B':
            started[ev[1]] = ev[2]
        elif ev[0] == 'P':
            when[(ev[1], started[ev[1]])] = t
        elif ev[0] == 'E':
            when.setdefault((ev[1], ev[2]), t)
    accepted = [(p, i) for p, ops in enumerate(calls) for i, r in enumerate(ops) if r == 'ok']
    aborts = [x for x in accepted if case['work'][x[0]][x[1]]['k'] == 'abort']
    accepted = [x for x in accepted if case['work'][x[0]][x[1]]['k'] != 'abort']     # requests that go to the storage
    enq_order = sorted(accepted, key=lambda x: when.get(x, 10**9))
    applied, phantom = identify(case, ctx.log, enq_order)
    order = [(p, i) for p, i, _ in applied]
    if sorted(order) != sorted(accepted):
        order = enq_order
    order = place_aborts(case, order, sorted(aborts, key=lambda x: when.get(x, 10**9)), sched.trace)
    twin = run_twin(case, order)
    SPY_CTX = None
    obs = dict(
        trace=sched.trace, applied=applied, phantom=phantom, calls=calls,
        saved=ctx.saved_at_close if ctx.saved_at_close is not None else contents(spy),
        saved_end=contents(spy), live=live_state(spy),
        closed_at=ctx.closed_at, ncalls=len(ctx.log), leftover=leftover,
        viol=sorted(sched.viol), problems=sorted(set(sched.problems)),
        twin_order=[list(x) for x in order], twin=twin)
    if any(op['k'] == 'metamut' for ops in case['work'] for op in ops):
        obs['twin_late'] = run_twin(case, order, late=True)
    return obs, sched


# --------------------------------------------------------------------------------------------------
# exploration
# --------------------------------------------------------------------------------------------------
def explore(case, gran, budget, max_runs):
    stack = [({}, 0, -1)]
    outcomes, order = {}, []
    runs = 0
    truncated = False
    while stack:
        if runs >= max_runs:
            truncated = True
            break
        ov, cost, last = stack.pop()
        obs, sched = run_once(case, Fixed(ov), gran)
        runs += 1
        key = json.dumps(obs, sort_keys=True)
        if key not in outcomes:
            obs['choices'] = list(sched.taken)
            obs['gran'] = gran
            outcomes[key] = obs
            order.append(key)
        for k in range(len(sched.info) - 1, last, -1):
            dflt, en, free_all, is_wait, me = sched.info[k]
            for t in en:
                if t == sched.taken[k]:
                    continue
                c = cost if (free_all or (is_wait and t != me)) else cost + 1
                if c <= budget:
                    nov = dict(ov)
                    nov[k] = t
                    stack.append((nov, c, k))
    return [outcomes[k] for k in order], runs, truncated


def random_runs(case, gran, seed, runs, p):
    outcomes, order = {}, []
    for j in range(runs):
        obs, sched = run_once(case, RandomWalk(seed * 7919 + j, p), gran)
        key = json.dumps(obs, sort_keys=True)
        if key not in outcomes:
            obs['choices'] = list(sched.taken)
            obs['gran'] = gran
            outcomes[key] = obs
            order.append(key)
    return [outcomes[k] for k in order], runs


# --------------------------------------------------------------------------------------------------
# structural gate: every access to the shared buffer sits inside `with self._lock:`
# --------------------------------------------------------------------------------------------------
def lock_gate():
    path = _src(amod)
    tree = ast.parse(open(path, encoding='utf-8').read())
    bad = []
    seen = [0]

    def is_lock_with(node):
        if not isinstance(node, ast.With):
            return False
        for it in node.items:
            e = it.context_expr
            if isinstance(e, ast.Attribute) and e.attr == '_lock' and isinstance(e.value, ast.Name) and e.value.id == 'self':
                return True
        return False

    def walk(node, locked, fn):
        if isinstance(node, (ast.FunctionDef, ast.Lambda)):
            name = getattr(node, 'name', '<lambda>')
            # a nested function / lambda runs later: the enclosing lock is not held then
            for ch in ast.iter_child_nodes(node):
                walk(ch, False, name if fn is None else fn + '.' + name)
            return
        if isinstance(node, ast.Attribute) and node.attr == '_recording_operation_buffer':
            seen[0] += 1
            if not locked and fn != '__init__':
                bad.append('%s:%d' % (fn, node.lineno))
        now = locked or is_lock_with(node)
        if isinstance(node, ast.With) and is_lock_with(node):
            for it in node.items:
                walk(it, locked, fn)
            for ch in node.body:
                walk(ch, True, fn)
            return
        for ch in ast.iter_child_nodes(node):
            walk(ch, now, fn)
    walk(tree, False, None)
    return dict(ok=not bad and seen[0] >= 3, unlocked=bad, accesses=seen[0])


# --------------------------------------------------------------------------------------------------
# real threads (thorough): free-running, direct predicate only
# --------------------------------------------------------------------------------------------------
def real_once(case, delay, switch, interval=0.002, burst=False):
    global S, SPY_CTX
    S = None
    ctx = SpyCtx(fail_table(case), delay=delay)
    ctx.real_threads = set()
    ctx.in_storage_since = None
    SPY_CTX = ctx
    old_sw = sys.getswitchinterval()
    sys.setswitchinterval(switch)
    spy = SpyCassette()
    calls = [[None] * len(ops) for ops in case['work']]
    stamps = {}
    tick = itertools.count()
    slow = []
    try:
        cas = amod.AsyncRecordOnlyTapeCassette(spy, flush_interval=interval, timeout_on_close=30)
        cas.start()
        recs = [cas.create_new_recording(category()) for _ in range(case['nrec'])]
        go = threading.Event()

        def body(p, ops):
            def run():
                ctx.real_threads.add(threading.get_ident())
                go.wait()
                for i, op in enumerate(ops):
                    b = next(tick)
                    t0 = time.monotonic()
                    try:
                        request(cas, recs, op)
                        res = 'ok'
                    except AssertionError:
                        res = 'refused'
                    except Exception as ex:
                        res = 'raised:' + type(ex).__name__
                    dt = time.monotonic() - t0
                    stamps[(p, i)] = (b, next(tick))
                    calls[p][i] = res
                    if delay >= 0.02 and dt > 0.6 * delay:      # (short delays: scheduling noise is of the same size)
                        slow.append([p, i, round(dt / delay, 2)])
                    # spread the requests over several flush cycles so that they overlap storage calls
                    # (burst: back to back, the whole history is pending when close() is called)
                    if not burst:
                        time.sleep(0.0005 * (1 + (p + i) % 3) + (delay / 3.0 if delay else 0.0))
            return run
        ths = [threading.Thread(target=body(p, ops)) for p, ops in enumerate(case['work'])]
        for t in ths:
            t.start()
        go.set()
        for t in ths:
            t.join(60)
        cas.close()
        alive = cas._update_recording_thread.is_alive()
    finally:
        sys.setswitchinterval(old_sw)
    accepted = [(p, i) for p, ops in enumerate(calls) for i, r in enumerate(ops) if r == 'ok']
    by_end = sorted(accepted, key=lambda x: stamps[x][1])
    applied, phantom = identify(case, ctx.log, by_end)
    order = [(p, i) for p, i, _ in applied]
    if sorted(order) != sorted(accepted):
        order = by_end
    twin = run_twin(case, order)
    SPY_CTX = None
    viol = []
    if any(e[4] == 'caller' for e in ctx.log):
        viol.append('storage-call-on-caller-thread')
    if alive:
        viol.append('thread-alive-after-close')
    return dict(applied=applied, phantom=phantom, calls=calls,
                saved=ctx.saved_at_close if ctx.saved_at_close is not None else contents(spy),
                saved_end=contents(spy), live=live_state(spy), closed_at=ctx.closed_at, ncalls=len(ctx.log),
                leftover=0, viol=viol, problems=[], twin_order=[list(x) for x in order], twin=twin,
                stamps=[[p, i, stamps[(p, i)][0], stamps[(p, i)][1]] for (p, i) in sorted(stamps)],
                slow=slow)


# --------------------------------------------------------------------------------------------------
def run_c12(case):
    global NAMING
    NAMING = NAMINGS[case.get('naming')]
    kind = case['sched']['kind']
    if kind == 'gate':
        return dict(gate=lock_gate())
    sc = case['sched']
    if kind == 'tokens':
        obs, sched = run_once(case, Tokens(sc['tokens']), 'atomic')
        obs['choices'] = list(sched.taken)
        obs['gran'] = 'atomic'
        return dict(runs=[obs], nruns=1)
    if kind == 'choices':
        obs, sched = run_once(case, Fixed(dict(enumerate(sc['choices']))), sc['gran'])
        obs['choices'] = list(sched.taken)
        obs['gran'] = sc['gran']
        return dict(runs=[obs], nruns=1)
    if kind == 'explore':
        outs, n, trunc = explore(case, sc['gran'], sc['budget'], sc['max_runs'])
        return dict(runs=outs, nruns=n, truncated=trunc)
    if kind == 'random':
        outs, n = random_runs(case, sc['gran'], sc['seed'], sc['runs'], sc['p'])
        return dict(runs=outs, nruns=n)
    if kind == 'threads':
        runs = []
        for j in range(sc['runs']):
            runs.append(real_once(case, sc['delay'], sc['switch'], sc.get('interval', 0.002), bool(sc.get('burst'))))
        return dict(real=runs, nruns=len(runs))
    raise ValueError(kind)


if __name__ == '__main__':
    main({"C12": run_c12})
