"""C19: the REAL PlaybackStudio over a REAL TapeRecorder and the three REAL cassettes (in-memory; file-based in a
scratch directory; S3 through the real S3BasicFacade over fake_s3 with the fake clock).

One case = a store (recordings made by running real decorated operations of classes whose NAMES are the categories)
+ one `PlaybackStudio.play()` request (explicit id list in any order with duplicates / lookup mode, in lookup order or
as a random sample under the seed of `random` the case names) + the set of
categories whose tuning cannot be created + a consumption script for the lazy result generators.

Every function of a category's tuning carries that category's tag: the playback function stamps the tag into the
operation's output and journals (tag, recording id); extractor / data extractor / comparator put theirs into the
verdict message.  Observables are canonical: recording ids are replaced by `<category>/[<day>/]r<ordinal>`.
"""
import atexit
import datetime
import multiprocessing
import os
import random
import shutil
import tempfile
import time

import fake_s3
from driver_common import main

from playback.tape_recorder import TapeRecorder
from playback.studio.studio import PlaybackStudio
from playback.studio.recordings_lookup import RecordingLookupProperties
from playback.studio.equalizer import ComparatorResult, EqualityStatus, CompareExecutionConfig, Comparison
from playback.studio.equalizer_tuning import EqualizerTuning, EqualizerTuner
from playback.tape_cassettes.in_memory.in_memory_tape_cassette import InMemoryTapeCassette
from playback.tape_cassettes.file_based.file_based_tape_cassette import FileBasedTapeCassette

MAIN_PID = os.getpid()
JQ = multiprocessing.SimpleQueue()     # journal entries written by comparison worker processes (real processes)
BASE = datetime.datetime(2020, 2, 27, 10, 0, 0)       # fake clock: day 0 = 20200227, day 1 = 20200228, ...
_SCRATCH = tempfile.mkdtemp(prefix='studio-scratch-', dir='/tmp')
atexit.register(lambda: shutil.rmtree(_SCRATCH, ignore_errors=True))


class Interrupt(BaseException):
    """Not an Exception: the operation does not complete -> the recording is flagged incomplete."""


class TunerError(Exception):
    pass


class BareTunerError(Exception):
    """an application error that keeps its detail in an attribute and hands nothing to Exception.__init__"""
    def __init__(self, category):
        super(BareTunerError, self).__init__()
        self.category = category


def fail_tuning(shape, category):
    """The ways a tuner fails for a category (`shape` names one; FAIL_SHAPES of harness/props/c19.py states
    the exception each of them ends in).  Only Exception subclasses: BaseException is not a tuning failure."""
    if shape == 'msg':
        raise TunerError('cannot tune %s' % category)
    if shape == 'assert':
        registry = {}
        assert category in registry                     # bare assert: AssertionError without arguments
    if shape == 'notimpl':
        raise NotImplementedError                       # the class, not an instance
    if shape == 'stopiter':
        return next(t for t in () if t == category)     # next() of an empty generator
    if shape == 'keyerror0':
        raise KeyError()
    if shape == 'lookup':
        return {}[category]                             # KeyError(category)
    if shape == 'bare':
        raise BareTunerError(category)
    if shape == 'two':
        raise TunerError('cannot tune', category)
    if shape == 'three':
        raise ValueError(category, 2, None)
    if shape == 'oserror':
        raise OSError(2, 'No such tuning', category)
    if shape == 'int':
        raise TunerError(42)
    if shape == 'none':
        raise TunerError(None)
    if shape == 'tuple':
        raise TunerError((category, 1))
    if shape == 'bytes':
        raise TunerError(b'cannot tune')
    if shape == 'dict':
        raise TunerError({'category': category})
    if shape == 'emptystr':
        raise TunerError('')
    if shape == 'unicode':
        raise TunerError(u'caf\u00e9 \u2713 %s' % category)
    if shape == 'braces':
        raise TunerError('{} {0} {category} %s' % category)
    if shape == 'nested':
        raise TunerError(KeyError(category))
    raise RuntimeError('unknown failure shape %r' % (shape,))


def describe_error(ex):
    """canonical text of an exception: class name and the repr of its arguments"""
    return '%s%s' % (type(ex).__name__, ascii(tuple(ex.args)))


class PlayerBoom(Exception):
    pass


class ExtractorBoom(Exception):
    pass


class ComparatorBoom(Exception):
    pass


class Ctx(object):
    player = 'rec'      # tag of the playback function currently running the operation ('rec' while recording)
    version = 1         # "code version": 1 while recording, 2 while replaying (drives the Different verdicts)


def make_class(recorder, name):
    """A real decorated operation class whose __name__ is the category."""

    def __init__(self, cfg=None):
        self._cfg = cfg

    @recorder.intercept_input(alias='cfg')
    def load_cfg(self):
        return dict(self._cfg)

    def meta(self):
        return {'n': self._cfg['n'], 'beh': self._cfg['beh']}

    @recorder.operation(metadata_extractor=meta)
    def execute(self):
        cfg = self.load_cfg()
        if cfg['incomplete'] and recorder.in_recording_mode:
            raise Interrupt()
        return {'n': cfg['n'], 'beh': cfg['beh'], 'cls': type(self).__name__, 'by': Ctx.player,
                'ver': Ctx.version if cfg['beh'] == 'diff' else 0}

    return type(str(name), (object,), {'__init__': __init__, 'load_cfg': load_cfg, 'execute': execute})


class Store(object):
    def __init__(self, kind, recs, serial):
        self.kind = kind
        self.recs = recs
        if kind == 'mem':
            self.cassette = InMemoryTapeCassette()
        elif kind == 'file':
            self.cassette = FileBasedTapeCassette(os.path.join(_SCRATCH, 'd%d' % serial))
        else:
            s3c = fake_s3.install()
            self.cassette = s3c.S3TapeCassette('studio-b%d' % serial, key_prefix='px', read_only=False)
        self.recorder = TapeRecorder(self.cassette)
        self.recorder.enable_recording()
        self.classes = {}
        self.canon = {}       # real id -> canonical id
        self.real = {}        # canonical id -> real id
        self.ids = []         # canonical id per ordinal (None if the recording was not saved)
        saved = []
        orig_save = self.cassette._save_recording

        def spy_save(recording):
            saved.append(recording.id)
            return orig_save(recording)
        self.cassette._save_recording = spy_save
        for n, r in enumerate(recs):
            cls = self.classes.get(r['cat'])
            if cls is None:
                cls = self.classes[r['cat']] = make_class(self.recorder, r['cat'])
            fake_s3.CLOCK.set(BASE + datetime.timedelta(days=r.get('day', 0), minutes=n))
            Ctx.player, Ctx.version = 'rec', 1
            before = len(saved)
            try:
                cls({'n': n, 'beh': r['beh'], 'incomplete': bool(r.get('incomplete'))}).execute()
            except Interrupt:
                pass
            if len(saved) != before + 1:
                raise RuntimeError('recording %d was not saved exactly once' % n)
            rid = saved[-1]
            parts = rid.split('/')
            cid = '/'.join(parts[:-1] + ['r%d' % n])
            self.canon[rid] = cid
            self.real[cid] = rid
            self.ids.append(cid)
        self.cassette._save_recording = orig_save
        self.recorder.disable_recording()
        # spy on the lookup entry point of the cassette (pass-through, journals what was asked and what came back)
        self.lookups = []
        orig_iter = self.cassette.iter_recording_ids

        def spy_iter(category, *a, **k):
            entry = [category, []]
            self.lookups.append(entry)
            it = orig_iter(category, *a, **k)

            def gen():
                for rid in it:
                    entry[1].append(self.c(rid))
                    yield rid
            return gen()
        self.cassette.iter_recording_ids = spy_iter

    def c(self, rid):
        return self.canon.get(rid, rid)

    def r(self, cid):
        return self.real.get(cid, cid)

    def cls_for(self, category):
        cls = self.classes.get(category)
        if cls is None:
            cls = self.classes[category] = make_class(self.recorder, category)
        return cls


_stores = {}
_serial = [0]


def store_for(kind, recs):
    key = (kind, repr(recs))
    st = _stores.get(key)
    if st is None:
        if len(_stores) > 6:
            for old in _stores.values():
                if old.kind == 'file':
                    shutil.rmtree(old.cassette.directory, ignore_errors=True)
            _stores.clear()
            fake_s3.reset()
        _serial[0] += 1
        st = _stores[key] = Store(kind, recs, _serial[0])
    return st


class TagTuner(EqualizerTuner):
    def __init__(self, store, fail, journal, shapes=None):
        self.store = store
        self.fail = set(fail)
        self.shapes = shapes or {}
        self.raised = {}        # category -> the exception object its (last) failure ended in
        self.journal = journal
        self.calls = []

    def create_category_tuning(self, category):
        self.calls.append(category)
        if category in self.fail:
            try:
                fail_tuning(self.shapes.get(category, 'msg'), category)
            except Exception as ex:
                self.raised[category] = ex
                raise
            raise RuntimeError('failure shape %r did not fail' % self.shapes.get(category))
        store, journal = self.store, self.journal
        ptag, etag, ctag, dtag = 'P:' + category, 'E:' + category, 'C:' + category, 'D:' + category

        def playback_function(recording):
            meta = recording.get_metadata()
            if os.getpid() == MAIN_PID:
                journal.append([ptag, store.c(recording.id)])
            else:       # running inside a dedicated comparison process: report to the parent
                JQ.put([ptag, store.c(recording.id)])
            if meta['beh'] == 'player_raises':
                raise PlayerBoom('stage=player;P=%s;n=%d' % (ptag, meta['n']))
            Ctx.player, Ctx.version = ptag, 2
            try:
                return store.cls_for(category)(None).execute()
            finally:
                Ctx.player, Ctx.version = 'none', 1

        def result_extractor(outputs):
            value = next(o.value['args'][0] for o in outputs if TapeRecorder.OPERATION_OUTPUT_ALIAS in o.key)
            if value['beh'] == 'extractor_raises':
                raise ExtractorBoom('stage=extractor;E=%s;n=%d' % (etag, value['n']))
            return {'etag': etag, 'val': value}

        def comparison_data_extractor(recording):
            return {'dtag': dtag, 'drid': store.c(recording.id)}

        def comparator(expected, actual, dtag=None, drid=None):
            a, e = actual['val'], expected['val']
            text = 'P=%s;E=%s,%s;C=%s;D=%s;n=%d,%d;cls=%s;drid=%s' % (
                a['by'], expected['etag'], actual['etag'], ctag, dtag, e['n'], a['n'], a['cls'], drid)
            if a['beh'] == 'comparator_raises':
                raise ComparatorBoom('stage=comparator;' + text)
            same = (e['n'], e['ver']) == (a['n'], a['ver'])
            return ComparatorResult(EqualityStatus.Equal if same else EqualityStatus.Different, 'stage=done;' + text)

        return EqualizerTuning(playback_function=playback_function, result_extractor=result_extractor,
                               comparator=comparator, comparison_data_extractor=comparison_data_extractor)


def canon_message(store, msg):
    if msg is None:
        return None
    msg = str(msg)
    if msg.startswith("b'No such recording: ") and msg.endswith("'"):
        return 'stage=fetch;id=' + store.c(msg[len("b'No such recording: "):-1])
    for rid, cid in store.canon.items():
        if rid in msg:
            msg = msg.replace(rid, cid)
    return msg


def project(store, cmp_, played):
    if not isinstance(cmp_, Comparison):
        return {"junk": type(cmp_).__name__}
    kept = None
    if cmp_.expected is not None or cmp_.actual is not None:
        kept = [x.get('etag') if isinstance(x, dict) else type(x).__name__ for x in (cmp_.expected, cmp_.actual)]
    pb = cmp_.playback
    return {"id": store.c(cmp_.recording_id),
            "status": cmp_.comparator_status.equality_status.name,
            "msg": canon_message(store, cmp_.comparator_status.message),
            "kept": kept,
            "attached": None if pb is None else store.c(pb.original_recording.id),
            "played": played}


def lookup_properties(case, store):
    lp = case.get('lp') or {}
    if lp.get('default'):
        return None     # the studio's own default (real clock window; ignored by the in-memory / file cassettes)
    start = BASE - datetime.timedelta(days=1)
    end = None
    if lp.get('end_day') is not None:
        end = BASE + datetime.timedelta(days=lp['end_day'], hours=13)
    return RecordingLookupProperties(start_date=start, end_date=end, limit=lp.get('limit'),
                                     random_sample=bool(lp.get('random')),
                                     skip_incomplete=lp.get('skip_incomplete', True))


def one_play(case, store, script):
    """Run PlaybackStudio.play() once and consume the result generators according to `script`
    (None = category after category)."""
    journal = []
    del store.lookups[:]
    # random_sample lookups draw from the process-wide generator of `random` ("use random.seed to change selection",
    # recordings_lookup.py:15): every play starts from the seed the case names, so that a run can be replayed
    random.seed(case.get('rseed', 0))
    tuner = TagTuner(store, case.get('fail', []), journal, case.get('fail_shape'))
    ids = case.get('ids')
    if ids is not None:
        ids = [store.ids[x] if isinstance(x, int) else x for x in ids]
        ids = [store.r(x) for x in ids]
    cfg = None
    if case.get('config') == 'default':
        cfg = CompareExecutionConfig()
    elif case.get('config') == 'keep':
        cfg = CompareExecutionConfig(keep_results_in_comparison=True)
    elif str(case.get('config')).startswith('dedicated'):     # real worker processes, e.g. "dedicated:2:keep"
        parts = case['config'].split(':')
        cfg = CompareExecutionConfig(compare_in_dedicated_process=True, compare_process_timeout=8,
                                     compare_process_recycle_rate=int(parts[1]) if len(parts) > 1 else 5,
                                     keep_results_in_comparison='keep' in parts[2:])
    fake_s3.CLOCK.set(BASE + datetime.timedelta(days=case.get('now_day', 3)))
    studio = PlaybackStudio(case.get('categories'), tuner, store.recorder,
                            lookup_properties=lookup_properties(case, store), recording_ids=ids,
                            compare_execution_config=cfg)
    try:
        result = studio.play()
    except Exception as ex:     # play() itself failed: nothing is reported for any category
        return {"raised": type(ex).__name__, "tuner_calls": tuner.calls}
    cats = list(result.keys())
    out = {c: None for c in cats}
    live = []
    for c in cats:
        v = result[c]
        if isinstance(v, Exception):
            # the category's result is the very object the tuner raised ("that error")
            out[c] = {"error": describe_error(v), "same": v is tuner.raised.get(c)}
        elif hasattr(v, '__next__'):
            out[c] = {"cmps": []}
            live.append(c)
        else:
            out[c] = {"junk": type(v).__name__}
    step = 0
    close = case.get('close') or {}

    def drain():
        while not JQ.empty():
            journal.append(JQ.get())

    def maybe_close(c):
        if c in close and c in live and len(out[c]["cmps"]) >= close[c]:
            result[c].close()           # the consumer abandons this category
            out[c]["closed"] = len(out[c]["cmps"])
            live.remove(c)

    for c in list(live):
        maybe_close(c)
    while live:
        if script is None:
            c = live[0]
        else:
            c = live[script[step % len(script)] % len(live)] if script else live[0]
        step += 1
        drain()
        mark = len(journal)
        try:
            cmp_ = next(result[c])
        except StopIteration:
            live.remove(c)
            continue
        except Exception as ex:   # a result generator died
            out[c]["died"] = type(ex).__name__
            live.remove(c)
            continue
        drain()
        out[c]["cmps"].append(project(store, cmp_, journal[mark:]))
        maybe_close(c)
    drain()
    return {"cats": cats, "results": [out[c] for c in cats], "tuner_calls": tuner.calls,
            "journal": list(journal),      # every run of a playback function since play() was called

            "lookups": [[c, l] for c, l in store.lookups], "recorder_idle": store.recorder._playback_recording is None
            and not store.recorder._playback_outputs and store.recorder._active_recording is None}


def reap():
    """no comparison worker may outlive a play whose generators were all exhausted or closed; whatever is left is
    counted and removed"""
    left = 0
    for _ in range(40):
        kids = multiprocessing.active_children()
        if not kids:
            break
        time.sleep(0.025)       # a worker notices the terminate signal within its 50 ms poll
    for p in multiprocessing.active_children():
        left += 1
        p.kill()
        p.join(2)
    return left


def anomalous(o):
    """a comparison that does not come from the category's tuning (worker died, timeout, ...) or a dead generator"""
    for r in o.get("results", []):
        if "died" in r or "junk" in r:
            return True
        for c in r.get("cmps", []):
            m = c.get("msg")
            if "junk" in c or not (m in (None, "") or str(m).startswith("stage=")):
                return True
    return False


def play_checked(case, store, script):
    """In-process runs are deterministic.  Runs on real worker processes depend on timing: an anomaly only counts if
    it shows up three times in a row; otherwise the clean run is reported and the anomaly is counted as inconclusive."""
    real = str(case.get('config')).startswith('dedicated')
    o = one_play(case, store, script)
    if not real:
        return o, 0
    o["left_workers"] = reap()
    tries = 0
    while anomalous(o) and tries < 2:
        tries += 1
        o2 = one_play(case, store, script)
        o2["left_workers"] = reap()
        if not anomalous(o2):
            return o2, tries
        o = o2
    return o, 0


def run_c19(case):
    store = store_for(case['cassette'], case['recs'])
    seq, i1 = play_checked(case, store, None)
    inter, i2 = play_checked(case, store, case.get('script') or [0])
    base, i3 = None, 0
    if case.get('fail'):     # the same request with every tuner working: other categories must not notice
        base, i3 = play_checked(dict(case, fail=[]), store, None)
    return {"base": base, "inconclusive": i1 + i2 + i3,
            "store": [[cid, r['cat'], bool(r.get('incomplete')), r.get('day', 0)]
                      for cid, r in zip(store.ids, store.recs)],
            "seq": seq, "inter": inter}


if __name__ == '__main__':
    main({"C19": run_c19})
