"""Probe stream "alias" for C02 / C03 (implementation side only; the program DSL of the recorder model has immutable values
only): hand-written straight-line operations whose REPLAYED code works IN PLACE on the mutable values the replay hands to it
- what an intercepted input returned (without and with data handlers whose restore step keeps a reference to the recorded
form), a recorded exception, the result of an intercepted output (incl. the `saved = repository.save(entity)` shape, where the
recorded result and recorded output arguments are one object inside the recording) - and then asks for the same call again /
sends the values on to further outputs.

case = {"kind": "alias", "cassette": "memory"|"file"|"s3", "plays": n,
        "inputs":  {alias: {"value": <pyval literal>, "handler": "none"|"plain"|"wrap", "raises": bool}},
        "outputs": {alias: {"ret": "arg0"|"wrap"|"none"|"fresh", "value": <literal for fresh>, "handler": "none"|"wrap"}},
        "steps": [step, ..]}
step:  ["new", var, literal]                      var = a fresh value
       ["in", var, alias, literal, ..]            var = the intercepted input `alias`(*literals) (a raised exception is caught: var = it)
       ["out", var, alias, [argvar, ..]]          var = the intercepted output `alias`(*args)
       ["mut", var, path, op, arg]                in-place `op` on the node reached from var along path
       ["ret", [var, ..]]                         the operation returns immutable snapshot texts of the variables
       ["only", [run, ..], step]                  the step belongs only to the listed runs (-1 = the record run, k = replay k): an EDIT
Observables per run: what every interception handed to the operation (snapshot at hand-out), what the operation sent to every
output (snapshot at the call, harness-side journal; an entry whose argument objects were changed in place AFTER the call is
marked unstable), bodies run, cassette calls, playback / recorded outputs, and the recording's entries after the replay."""
from lib import heapgraph as hg
from lib import pyvals as pv
from lib.pyvals import to_py, from_py


def run_alias_probe(case):
    import recorder_driver as rdrv          # (the shared pieces: spy cassette, canonical datum forms, wrap handlers)
    from playback.tape_recorder import TapeRecorder, RecordingParameters
    inner, cleanup = rdrv.make_cassette(case.get("cassette", "memory"))
    spy = rdrv.Spy(inner)
    rec = TapeRecorder(spy)
    cur = {"run": -1}
    handed, bodies, sent, sent_nodes, counts, last = [], [], {}, [], {}, {}

    def node(v, path):
        for p in path:
            v = getattr(v, p[1]) if isinstance(p, list) else v[p]
        return v

    def mutate(o, op, arg):
        a = None if arg is None else to_py(arg)
        if op == "setattr":
            setattr(o, a[0], a[1])
        elif op == "setitem":
            o[a[0]] = a[1]
        elif op == "delitem":
            del o[a]
        elif op in ("append", "extend", "add", "update", "remove", "discard"):
            getattr(o, op)(a)
        elif op in ("clear", "reverse", "pop", "popitem", "sort"):
            getattr(o, op)()
        else:
            raise ValueError(op)
        for ent in sent_nodes:              # an argument object of an earlier output call was changed after the call
            if id(o) in ent["ids"]:
                sent[ent["key"]]["unstable"] = True

    def make_input(alias, cfg):
        handler = {"none": None, "plain": rdrv.WrapIn(plain=True), "wrap": rdrv.WrapIn()}[cfg.get("handler", "none")]

        def body(*a):
            bodies.append(alias)
            if cfg.get("raises"):
                e = ValueError("recorded failure")
                e.detail = to_py(cfg["value"])
                raise e
            return to_py(cfg["value"])
        fn = rec.intercept_input(alias, data_handler=handler)(lambda self, *a: body(*a))
        return lambda *a: fn(holder, *a)

    def make_output(alias, cfg):
        handler = {"none": None, "wrap": rdrv.WrapOut()}[cfg.get("handler", "none")]

        def body(*a):
            bodies.append(alias)
            how = cfg.get("ret", "none")
            if how == "arg0":
                return a[0]
            if how == "wrap":
                return {"saved": a[0], "n": len(a)}
            if how == "fresh":
                return to_py(cfg["value"])
            return None
        fn = rec.intercept_output(alias, data_handler=handler)(lambda self, *a: body(*a))

        def call(*a):
            counts[alias] = counts.get(alias, 0) + 1
            key = "output: %s #%d.output" % (alias, counts[alias])
            if handler is None:
                d = {"d": "out", "args": [from_py(x) for x in a], "kwargs": []}
            else:
                d = {"d": "data", "v": from_py({"a": list(a), "k": {}})}
            sent[key] = {"datum": d, "unstable": False}
            sent_nodes.append({"key": key, "ids": set(id(o) for _, o in hg.mutable_nodes(list(a))), "keep": a})
            return fn(holder, *a)
        return call

    holder = object()
    inputs = {alias: make_input(alias, cfg) for alias, cfg in sorted(case.get("inputs", {}).items())}
    outputs = {alias: make_output(alias, cfg) for alias, cfg in sorted(case.get("outputs", {}).items())}

    @rec.recording_params(RecordingParameters(sampling_rate=1.0, copy_data_on_intercepion=bool(case.get("copy", False))))
    class AliasOp(object):
        @rec.operation()
        def execute(self):
            env = {}
            for k, st in enumerate(case["steps"]):
                if st[0] == "only":
                    if cur["run"] not in st[1]:
                        continue
                    st = st[2]
                if st[0] == "new":
                    env[st[1]] = to_py(st[2])
                elif st[0] == "in":
                    try:
                        env[st[1]] = inputs[st[2]](*[to_py(x) for x in st[3:]])
                    except ValueError as ex:
                        env[st[1]] = ex
                    handed.append([k, "in", st[2], hg.snap(env[st[1]])])
                elif st[0] == "out":
                    env[st[1]] = outputs[st[2]](*[env[v] for v in st[3]])
                    handed.append([k, "out", st[2], hg.snap(env[st[1]])])
                elif st[0] == "mut":
                    mutate(node(env[st[1]], st[2]), st[3], st[4] if len(st) > 4 else None)
                elif st[0] == "ret":
                    last["v"] = [hg.snap(env[v]) for v in st[1]]
                    return last["v"]
            return None

    def attempt(f):
        del handed[:], bodies[:], sent_nodes[:]
        sent.clear()
        counts.clear()
        last.clear()
        spy.log = []
        try:
            r = f()
            o = {"o": "val", "v": from_py(r)}
        except BaseException as ex:
            o = rdrv.outcome_of_exc(ex)
        return {"outcome": o, "op_ret": from_py(last.get("v")), "handed": [list(h) for h in handed], "bodies_run": list(bodies),
                "sent": sorted([k, v["datum"], v["unstable"]] for k, v in sent.items()),
                "cass": [dict(c) for c in spy.log]}

    out = {"plays": []}
    try:
        rec.enable_recording()
        out["record"] = attempt(lambda: AliasOp().execute())
        saves = [c for c in out["record"]["cass"] if c["c"] == "save"]
        out["saved"] = bool(saves)
        out["fetch_ok"] = bool(saves) and saves[0]["fetch_ok"]
        out["recorded"] = saves[0]["data"] if saves else None
        for c in out["record"]["cass"]:
            c.pop("data", None), c.pop("meta", None), c.pop("clock", None)
        for k in range(case.get("plays", 1) if saves else 0):
            (rec.enable_recording if k % 2 == 0 else rec.disable_recording)()
            cur["run"] = k
            box = {}
            before = repr(sorted(getattr(inner, "_recordings", {}).items()))

            def play():
                box["pb"] = rec.play(spy.ids[0], lambda recording: AliasOp().execute())
            ob = attempt(play)
            pb = box.get("pb")
            ob["recording_enabled"] = k % 2 == 0
            ob["store_changed"] = before != repr(sorted(getattr(inner, "_recordings", {}).items()))
            ob["pbouts"] = rdrv.datum_list((x.key, x.value) for x in pb.playback_outputs) if pb else []
            ob["recouts"] = rdrv.datum_list((x.key, x.value) for x in pb.recorded_outputs) if pb else []
            # what the recording the replay worked on holds afterwards (read without going through the copying accessor)
            ob["recording_after"] = rdrv.datum_list(sorted(pb.original_recording.recording_data.items())) if pb else None
            out["plays"].append(ob)
    finally:
        cleanup()
    return out
