"""C16: real S3TapeCassette over the fake bucket with a fake clock."""
import datetime
import logging
import os
import random
import time

import fake_s3
from driver_common import main
from playback.studio.recordings_lookup import RecordingLookupProperties, find_matching_recording_ids
from playback.tape_recorder import TapeRecorder

BASE = datetime.datetime(2020, 2, 27, 0, 0, 0)   # window grid crosses Feb 29 (leap day) and a month boundary
_cache = {}
_nbuckets = [0]


_shift = [0]          # days added to BASE for the current case (`base_days`)


def at(us):
    return BASE + datetime.timedelta(days=_shift[0], microseconds=us)


def populated(times, tags, prefix):
    key = (tuple(times), tuple(tags), prefix, _shift[0])
    if key in _cache:
        return _cache[key]
    if len(_cache) > 8:
        # evict BEFORE the new bucket is made: fake_s3.reset() forgets every store, a cassette populated before it could
        # still list (its bucket object holds the store) but not fetch (objects are looked up by bucket name)
        _cache.clear()
        fake_s3.reset()
    s3c = fake_s3.install(random_ids=len(_cache) + 17)
    _nbuckets[0] += 1
    bucket = 'b%d' % _nbuckets[0]   # never reuse a bucket name: the fake stores are global
    cas = s3c.S3TapeCassette(bucket, key_prefix=prefix, read_only=False)
    ids = {}
    for i, t in enumerate(times):
        fake_s3.CLOCK.set(at(t))
        rec = cas.create_new_recording('Op')
        rec.set_data('k', i)
        rec.add_metadata({'i': i, 'g': tags[i]})
        cas.save_recording(rec)
        ids[rec.id] = i
        if i % 7 == 0:   # decoy of a prefix category at the same instant (same metadata: a filter does not hide it)
            d = cas.create_new_recording('OpX')
            d.set_data('k', i)
            d.add_metadata({'i': i, 'g': tags[i]})
            cas.save_recording(d)
    _cache[key] = (cas, ids)
    return cas, ids


class _Formatting(logging.Handler):
    """what any real handler does with a record: format it (the text goes nowhere)"""
    def emit(self, record):
        self.format(record)


def run_c16(case):
    times = case['times']
    _shift[0] = case.get('base_days', 0)
    cas, ids = populated(times, case.get('tags') or [0] * len(times), case.get('prefix', ''))
    if case.get('tz'):
        # the same lookup in a process whose time zone is not UTC (TZ + tzset, restored afterwards): the bounds are naive
        # UTC datetimes and the fake clock stays UTC, so nothing may change
        before_tz = os.environ.get('TZ')
        os.environ['TZ'] = case['tz']
        time.tzset()
        try:
            return run_logged(case, cas, ids)
        finally:
            if before_tz is None:
                os.environ.pop('TZ', None)
            else:
                os.environ['TZ'] = before_tz
            time.tzset()
    return run_logged(case, cas, ids)


def run_logged(case, cas, ids):
    if not case.get('log'):
        return lookup(case, cas, ids)
    # the same lookup in a process whose logging is switched on (root logger at the given level, a handler that formats
    # every record): driver_common disables logging globally, so it is re-enabled for the duration of this case
    root = logging.getLogger()
    handler = _Formatting()
    before = (root.level, logging.root.manager.disable)
    root.addHandler(handler)
    root.setLevel(getattr(logging, case['log']))
    logging.disable(logging.NOTSET)
    try:
        return lookup(case, cas, ids)
    finally:
        root.removeHandler(handler)
        root.setLevel(before[0])
        logging.disable(before[1])


def lookup(case, cas, ids):
    fake_s3.CLOCK.set(at(case['now']))
    end = None if case['end'] is None else at(case['end'])
    flt = None if case.get('filter') is None else {'g': case['filter']}
    if case.get('random'):
        random.seed(case['start'] % 1009)     # the listing is compared as a set; the seed only makes the run repeatable
    via = case.get('via') or 'ids'
    if via == 'metadata':
        # the other listing entry point of a cassette: the metadata of the recordings in the window (each recording's
        # metadata holds its ordinal 'i'; no random listing through this entry point)
        metas = list(cas.iter_recordings_metadata('Op', start_date=at(case['start']), end_date=end, metadata=flt,
                                                  limit=case.get('limit')))
        idx = [m.get('i', -1) if isinstance(m, dict) and isinstance(m.get('i', -1), int) and
               0 <= m.get('i', -1) < len(case['times']) else -1 for m in metas]
        return {"listed": sorted(idx), "n": len(metas), "unknown": [repr(m)[:80] for m, i in zip(metas, idx) if i < 0][:3]}
    if via in ('find', 'find-all'):
        # the studio's lookup (playback.studio.recordings_lookup) with the default skip_incomplete=True (adds a metadata
        # filter on the incomplete flag, which no recording of these buckets carries) / with skip_incomplete=False
        props = RecordingLookupProperties(at(case['start']), end_date=end, metadata=flt, limit=case.get('limit'),
                                          random_sample=bool(case.get('random')), skip_incomplete=via == 'find')
        got = list(find_matching_recording_ids(TapeRecorder(cas), 'Op', props))
    else:
        got = list(cas.iter_recording_ids('Op', start_date=at(case['start']), end_date=end, metadata=flt,
                                          random_results=bool(case.get('random')), limit=case.get('limit')))
    idx = [ids.get(g, -1) for g in got]
    return {"listed": sorted(idx), "n": len(got), "unknown": [g for g in got if g not in ids][:3]}


if __name__ == '__main__':
    main({"C16": run_c16})
