"""Recorder properties (C01-C05, C09, C17, C18): histories of runs on one REAL TapeRecorder.

A case is {"draws": [[n,d],..], "runs": [run,..], "cassette": "memory"|"file"|"s3"}; the programs are terms of the
DSL of coq/theories/Recorder/Dsl.v.  For every call site a real decorated function is built
(intercept_input / static_intercept_input / property / intercept_output / static_intercept_output) whose undecorated
body interprets the site's body; operations are real decorated methods of freshly created classes.
Observables per run: outcome seen by the caller, trace (EBegin/EBody/ECall), spy-cassette calls, playback and
recorded outputs, recorder fields afterwards."""
import json
import os
import shutil
import tempfile
from fractions import Fraction

from driver_common import main
from lib import pyvals as pv
from lib.pyvals import to_py, from_py

from playback.tape_recorder import TapeRecorder, CapturedArg, RecordingParameters
from playback.tape_cassette import TapeCassette
from playback.exceptions import (RecordingKeyError, InputInterceptionKeyCreationError, NoSuchRecording,
                                 OperationExceptionDuringPlayback)
from playback.interception.input_interception import InputInterceptionDataHandler
from playback.interception.output_interception import OutputInterceptionDataHandler
from playback.tape_cassettes.in_memory.in_memory_tape_cassette import InMemoryTapeCassette
from playback.tape_cassettes.file_based.file_based_tape_cassette import FileBasedTapeCassette

_UserAssertion = pv.UserAssertion     # AssertionError raised by the generated service code (a failing service assert)


EXC = {"NoSuchRecording": lambda: NoSuchRecording("some/other-recording"), "AssertionError": _UserAssertion, "UnserError": pv.UnserError, "ValueError": ValueError, "KeyError": KeyError, "RuntimeError": RuntimeError,
       "ZeroDivisionError": ZeroDivisionError, "CustomError": pv.CustomError, "HandlerError": pv.HandlerError,
       "TypeError": TypeError}


# (round 7) resource-exhaustion errors: ordinary exceptions (subclasses of Exception) as far as the recorder is concerned
EXC.update({"RecursionError": RecursionError, "MemoryError": MemoryError})


class Interrupt(BaseException):
    """Stands for KeyboardInterrupt / SystemExit: a BaseException that is not an Exception."""


def exn_name(ex):
    if isinstance(ex, RecordingKeyError):
        return "KeyMissing"
    if isinstance(ex, InputInterceptionKeyCreationError):
        return "KeyCreation"
    if isinstance(ex, NoSuchRecording):
        return "NoSuchRecording"
    if isinstance(ex, OperationExceptionDuringPlayback):
        return "OpDuringPlayback"
    if isinstance(ex, _UserAssertion):
        return "user:AssertionError"
    if isinstance(ex, AssertionError):
        return "Assertion"
    return "user:" + type(ex).__name__


def outcome_of_exc(ex):
    if isinstance(ex, Exception):
        return {"o": "exn", "e": exn_name(ex)}
    return {"o": "int"}


# ---- data handlers -----------------------------------------------------------------------------------
class WrapIn(InputInterceptionDataHandler):
    def __init__(self, prep_raises=False, restore_raises=False, discards=None, plain=False):
        self.prep_raises, self.restore_raises, self.discards, self.plain = prep_raises, restore_raises, discards, plain

    def prepare_input_for_recording(self, interception_key, result, args, kwargs):
        if self.discards is not None:
            self.discards.discard_recording()      # the handler itself decides to drop the recording
        if self.plain:
            return result
        if self.prep_raises:
            raise pv.HandlerError("prepare")
        return {"wrapped": result, "nargs": len(args)}

    def restore_input_from_recording(self, recorded_data, args, kwargs):
        if self.plain:
            return recorded_data
        if self.restore_raises:
            raise pv.HandlerError("restore")
        return recorded_data["wrapped"]


class WrapOut(OutputInterceptionDataHandler):
    def __init__(self, raises=False, form="wrap"):
        self.raises, self.form = raises, form

    def prepare_output_for_recording(self, interception_key, args, kwargs):
        if self.raises:
            raise pv.HandlerError("prepare")
        if self.form == "count":
            return len(args) + 10 * len(kwargs)      # what a handler prepares is opaque: a digest / checksum (an int) ..
        if self.form == "null":
            return None                              # .. or nothing at all (the call itself is the information)
        return {"a": list(args), "k": dict(kwargs)}

    def restore_output_from_recording(self, recorded_data):
        return recorded_data


# ---- spy cassette --------------------------------------------------------------------------------------
class Spy(TapeCassette):
    """Delegates to a real cassette and journals every call that reaches it."""
    def __init__(self, inner):
        self.inner = inner
        self.log = []
        self.ords = {}          # recording id -> creation ordinal
        self.ids = []
        self.save_fails = False

    def create_new_recording(self, category):
        r = self.inner.create_new_recording(category)
        self.ords[r.id] = len(self.ids)
        self.ids.append(r.id)
        self.log.append({"c": "create", "cat": category})
        return r

    def save_recording(self, recording):
        n = self.ords.get(recording.id, -1)
        try:
            if self.save_fails:
                raise IOError("storage down")
            snap = datum_list(recording.recording_data.items())
            meta = meta_list(recording.recording_metadata)
            self.inner.save_recording(recording)
        except Exception:
            self.log.append({"c": "savefailed", "ord": n})
            raise
        # does the cassette hand back what was saved?  (C07's round trip, observed for this very recording: a failure here
        # is the serializer's shared-reference defect, known finding F07c)
        try:
            back = self.inner.get_recording(recording.id)
            fetch_ok = canon_items(datum_list(back.recording_data.items())) == canon_items(snap)
        except Exception as ex:      # e.g. RecursionError out of the decoder
            fetch_ok = False
        self.log.append({"c": "save", "ord": n, "data": snap, "meta": meta,
                         "clock": clock_info(recording.recording_metadata), "fetch_ok": fetch_ok})

    def _save_recording(self, recording):
        raise AssertionError("not used")

    def abort_recording(self, recording=None):
        self.log.append({"c": "abort", "ord": self.ords.get(recording.id, -1)})
        return self.inner.abort_recording(recording)

    def get_recording(self, recording_id):
        try:
            r = self.inner.get_recording(recording_id)
        except NoSuchRecording:
            self.log.append({"c": "get", "found": False})
            raise
        self.log.append({"c": "get", "found": True})
        return r

    def iter_recording_ids(self, *a, **k):
        return self.inner.iter_recording_ids(*a, **k)

    def extract_recording_category(self, recording_id):
        return self.inner.extract_recording_category(recording_id)

    def close(self):
        self.inner.close()


CLOCK_KEYS = (TapeRecorder.DURATION, TapeRecorder.RECORDED_AT)


def meta_list(meta):
    out = []
    for k, v in meta.items():
        if k in CLOCK_KEYS:
            continue
        if k == TapeRecorder.OPERATION_CLASS and isinstance(v, type):
            out.append([k, {"t": "clsref", "v": v.__name__}])
        else:
            out.append([k, from_py(v)])
    return out


def clock_info(meta):
    """duration sane; the recording timestamp is a naive UTC time (as everything else in the package: S3 day folders,
    lookup windows) close to now - checked right after the save, also in an interpreter whose local time is not UTC"""
    import datetime as _dt
    d = meta.get(TapeRecorder.DURATION)
    ra = meta.get(TapeRecorder.RECORDED_AT)
    utc_ok = False
    if isinstance(ra, str):
        for fmt in ("%Y-%m-%d %H:%M:%S.%f", "%Y-%m-%d %H:%M:%S"):
            try:
                t = _dt.datetime.strptime(ra, fmt)
            except ValueError:
                continue
            now = _dt.datetime.now(_dt.timezone.utc).replace(tzinfo=None)
            utc_ok = -120.0 <= (t - now).total_seconds() <= 5.0
            break
    return {"duration_ok": isinstance(d, float) and 0.0 <= d < 3600.0,
            "recorded_at_ok": isinstance(ra, str), "recorded_at_utc_ok": utc_ok}


def datum_of(key, value):
    """Canonical form of what a recording holds under a key (kind decided by the key's shape)."""
    if key.startswith('input: ') or key.endswith('.result'):
        if isinstance(value, dict) and 'exception' in value:
            return {"d": "exn", "e": exn_name(value['exception'])}
        if isinstance(value, dict) and 'value' in value and len(value) == 1:
            return {"d": "val", "v": from_py(value['value'])}
        return {"d": "data", "v": from_py(value)}
    if key.startswith('output: ') and isinstance(value, dict) and set(value) == {'args', 'kwargs'} \
            and isinstance(value['args'], list) and isinstance(value['kwargs'], dict):
        if len(value['args']) == 1 and isinstance(value['args'][0], BaseException) and not value['kwargs']:
            return {"d": "opexn", "ty": exn_name(value['args'][0])[5:] if exn_name(value['args'][0]).startswith("user:")
                    else type(value['args'][0]).__name__}
        if len(value['args']) == 1 and isinstance(value['args'][0], dict) and set(value['args'][0]) == {'error_type', 'error_repr'} \
                and isinstance(value['args'][0]['error_type'], type) \
                and key.startswith('output: ' + TapeRecorder.OPERATION_OUTPUT_ALIAS):
            et = value['args'][0]['error_type']     # _serializable_exception_form of an exception that cannot be encoded
            return {"d": "opexn", "ty": "AssertionError" if et is _UserAssertion else et.__name__}
        return {"d": "out", "args": [from_py(x) for x in value['args']],
                "kwargs": [[k, from_py(v)] for k, v in value['kwargs'].items()]}
    return {"d": "data", "v": from_py(value)}


def canon_items(items):
    def cd(d):
        d = dict(d)
        if "v" in d:
            d["v"] = pv.canon_json(d["v"])
        if "args" in d:
            d["args"] = [pv.canon_json(x) for x in d["args"]]
            d["kwargs"] = sorted([k, pv.canon_json(v)] for k, v in d["kwargs"])
        return d
    return sorted(([k, cd(d)] for k, d in items), key=lambda kd: kd[0])


def datum_list(items):
    return [[k, datum_of(k, v)] for k, v in items]


class ScriptedRandom(object):
    def __init__(self, draws):
        self.draws = [Fraction(n, d) for n, d in draws]
        self.pos = 0

    def random(self):
        v = self.draws[self.pos] if self.pos < len(self.draws) else Fraction(0)
        self.pos += 1
        return float(v)


# ---- the interpreter ------------------------------------------------------------------------------------
class Ctx(object):
    def __init__(self, rec):
        self.rec = rec
        self.trace = []
        self.identity_violations = 0
        self.last_body_result = {}
        self.threads_icpt = []
        self.journal = []          # harness-side notes about what the program did (not part of the modelled trace)


def ev_args(a, kw):
    return [from_py(x) for x in a], [[k, from_py(v)] for k, v in kw.items()]


UNSHARE = [False]


def evaluate(e, env):
    if "lit" in e:
        return to_py(e["lit"])
    n = e["var"]
    v = env[n] if n < len(env) else None
    if UNSHARE[0]:
        # the generated program passes / returns a structurally equal COPY of the bound value, so that no mutable object
        # is referenced twice inside one recording (tree-shaped value domain; sharing is known finding F07c)
        j = from_py(v)
        if '"other"' not in repr(j).replace("'", '"'):
            return to_py(j)
    return v


def build_input(shared):
    """shared = {"ctx": .., "site": ..}: ONE decorated function serves every call site of the history that has the same
    configuration and body (as one real function is called from many places), so state kept in a decorator's closure
    between calls shows; the closure reads the current run's context and call site through `shared`."""
    cfg = shared["site"]["cfg"]
    rec = shared["ctx"].rec
    alias = cfg["alias"]
    static = cfg["static"]
    off = 0 if static else 1

    def body(*a, **kw):
        ctx, site = shared["ctx"], shared["site"]
        aa, kk = ev_args(a, kw)
        ctx.trace.append({"e": "body", "alias": alias, "args": aa, "kwargs": kk})
        r = interp(ctx, site["body"], list(a) + list(kw.values()))
        ctx.last_body_result[id(site)] = r
        return r

    rk = cfg["resolver"]["kind"]
    if rk == "none":
        resolver = None
    elif rk == "raises":
        def resolver(*a, **k):
            raise pv.HandlerError("resolver")
    else:
        idx = cfg["resolver"]["i"]

        def resolver(*a, **k):
            v = a[idx + off]
            if not isinstance(v, str):
                raise TypeError("resolver wants a str")
            return {"p": v}
    disc = rec if cfg.get("prep_discards") else None
    h = {"none": WrapIn(discards=disc, plain=True) if disc else None, "wrap": WrapIn(discards=disc),
         "prep_raises": WrapIn(prep_raises=True, discards=disc),
         "restore_raises": WrapIn(restore_raises=True, discards=disc)}[cfg["handler"]]
    cap = None if cfg["cap"] is None else [CapturedArg(p, n) for p, n in cfg["cap"]]
    vk = cfg["vmiss"]["kind"]
    if vk == "none":
        vmiss = None
    elif vk == "lit":
        vmiss = to_py(cfg["vmiss"]["v"])
    else:
        def vmiss(*a, **k):
            return tuple(a[off:])
    fk = cfg["fallbacks"]["kind"]
    if fk == "none":
        fb = None
    elif fk == "list":
        fb = list(cfg["fallbacks"]["l"])
    elif fk == "fun":
        def fb(*a, **k):
            return list(cfg["fallbacks"]["l"])
    else:
        def fb(*a, **k):
            raise pv.HandlerError("fallbacks")
    kwargs = dict(alias_params_resolver=resolver, data_handler=h, capture_args=cap,
                  run_intercepted_when_missing=cfg["run_missing"], value_when_missing=vmiss, fallback_aliases=fb)
    if static:
        fn = rec.static_intercept_input(alias, **kwargs)(body)
        return lambda a, kw: fn(*a, **kw)
    if cfg.get("property"):
        Svc = type("SvcP", (object,), {"p": rec.intercept_input(alias, **kwargs)(property(lambda self: body()))})
        svc = Svc()
        return lambda a, kw: svc.p
    Svc = type("Svc", (object,), {"f": rec.intercept_input(alias, **kwargs)(lambda self, *a, **kw: body(*a, **kw))})
    svc = Svc()
    return lambda a, kw: svc.f(*a, **kw)


def build_output(shared):
    cfg = shared["site"]["cfg"]
    rec = shared["ctx"].rec
    alias = cfg["alias"]

    def body(*a, **kw):
        ctx, site = shared["ctx"], shared["site"]
        aa, kk = ev_args(a, kw)
        ctx.trace.append({"e": "body", "alias": alias, "args": aa, "kwargs": kk})
        r = interp(ctx, site["body"], list(a) + list(kw.values()))
        ctx.last_body_result[id(site)] = r
        return r
    h = {"none": None, "wrap": WrapOut(), "raises": WrapOut(raises=True), "count": WrapOut(form="count"),
         "null": WrapOut(form="null")}[cfg["handler"]]
    kwargs = dict(data_handler=h, fail_on_no_recorded_result=cfg["fail"],
                  default_result_when_not_recorded=to_py(cfg["default"]))
    if cfg["static"]:
        fn = rec.static_intercept_output(alias, **kwargs)(body)
        return lambda a, kw: fn(*a, **kw)
    Svc = type("SvcO", (object,), {"f": rec.intercept_output(alias, **kwargs)(lambda self, *a, **kw: body(*a, **kw))})
    svc = Svc()
    return lambda a, kw: svc.f(*a, **kw)


def _plain(c):
    """a program term without the driver's own annotations (keys starting with '_')"""
    if isinstance(c, dict):
        return {k: _plain(v) for k, v in c.items() if not k.startswith("_")}
    if isinstance(c, list):
        return [_plain(x) for x in c]
    return c


def call_site(ctx, site, env, builder):
    a = [evaluate(e, env) for e in site["args"]]
    kw = {k: evaluate(e, env) for k, e in site["kwargs"]}
    cache = ctx.rec.__dict__.setdefault("_verif_fn_cache", {})
    key = site.get("_key")
    if key is None:
        key = site["_key"] = json.dumps([site["k"], site["cfg"], _plain(site["body"])], sort_keys=True, default=str)
    ent = cache.get(key)
    if ent is None:
        shared = {"ctx": ctx, "site": site}
        ent = cache[key] = (builder(shared), shared)
    fn, shared = ent
    outer = (shared["ctx"], shared["site"])
    shared["ctx"], shared["site"] = ctx, site
    alias = site["cfg"]["alias"]
    aa, kk = ev_args(a, kw)
    ctx.trace.append({"e": "begin", "alias": alias, "args": aa, "kwargs": kk, "kind": site["k"]})
    ctx.last_body_result.pop(id(site), None)
    try:
        r = fn(a, kw)
    except BaseException as ex:
        ctx.trace.append({"e": "call", "alias": alias, "o": outcome_of_exc(ex)})
        raise
    finally:
        shared["ctx"], shared["site"] = outer
    if id(site) in ctx.last_body_result and ctx.last_body_result[id(site)] is not r:
        ctx.identity_violations += 1      # the body ran but the caller got a different object (C04)
    ctx.trace.append({"e": "call", "alias": alias, "o": {"o": "val", "v": from_py(r)}})
    return r


# interrupt-style terminations: every BaseException that is not an Exception (one kind per history, chosen by the case)
INTERRUPTS = {"custom": Interrupt, "keyboard": KeyboardInterrupt, "sysexit": lambda: SystemExit(3), "genexit": GeneratorExit}
INTERRUPT_KIND = ["custom"]


def interp(ctx, c, env):
    while True:
        k = c["k"]
        if k == "ret":
            return evaluate(c["e"], env)
        if k == "raise":
            raise EXC[c["ty"]]()
        if k == "interrupt":
            raise INTERRUPTS[INTERRUPT_KIND[0]]()
        if k == "in":
            v = call_site(ctx, c, env, build_input)
            env = env + [v]
            c = c["next"]
        elif k == "out":
            v = call_site(ctx, c, env, build_output)
            env = env + [v]
            c = c["next"]
        elif k == "try":
            try:
                return interp(ctx, c["c"], env)
            except Exception:
                return interp(ctx, c["h"], env)
        elif k == "spawn":
            import threading

            def target(code=c["c"], e=list(env)):
                try:
                    interp(ctx, code, e)
                except BaseException:      # whatever the worker returns or raises dies with the thread
                    pass
            t = threading.Thread(target=target)
            t.start()
            t.join()
            ctx.threads_icpt.append(bool(ctx.rec._currently_in_interception))
            c = c["next"]
        elif k == "discard":
            ctx.journal.append({"j": "discard", "active": ctx.rec._active_recording is not None})
            ctx.rec.discard_recording()
            c = c["next"]
        elif k == "force":
            ctx.rec.force_sample_recording()
            c = c["next"]
        elif k == "enable":
            (ctx.rec.enable_recording if c["b"] else ctx.rec.disable_recording)()
            c = c["next"]
        elif k == "recdata":
            ctx.rec.record_data(c["key"], evaluate(c["e"], env))
            c = c["next"]
        elif k == "playdata":
            v = ctx.rec.play_data(c["key"])
            env = env + [v]
            c = c["next"]
        else:
            raise ValueError(k)


class OpHolder(object):
    """One decorated operation per (class name, class-level?, has extractor?) and recorder: the SAME decorated
    function serves every run of that operation in a history (state kept in decorator closures would show)."""
    def __init__(self):
        self.ctx = None
        self.op = None


def build_derived_operation(ctx, op, prm=None):
    """An operation class that INHERITS from another class of the service (op["base"] = {"name": .., "prm": parameters
    registered for the base class or None, "inherits_op": is the decorated operation defined in the base class and merely
    inherited?, "abstract": the base is never run itself}).  The class that runs is the derived one: its name is op["cls"],
    its own parameters (prm) are registered for it when given - exactly as build_operation does for a flat class."""
    rec = ctx.rec
    cache = rec.__dict__.setdefault("_verif_ops", {})
    has_ex = op["extractor"]["kind"] != "none"
    base = op["base"]
    key = (op["cls"], op["classlevel"], has_ex, repr(sorted(prm.items())) if prm else None,
           json.dumps(base, sort_keys=True))
    if key not in cache:
        holder = OpHolder()
        audit = rec.static_intercept_output("audit")(lambda *a, **k: None)

        def extractor(*a, **k):
            ex = holder.op["extractor"]
            if ex["kind"] == "calls_out":
                for i in range(ex.get("n", 1)):
                    audit("extracted", i)
                return {kk: to_py(v) for kk, v in ex["d"]}
            if ex["kind"] == "dict":
                return shaped(ex, {kk: to_py(v) for kk, v in ex["d"]})
            if ex["kind"] == "raises":
                raise pv.HandlerError("extractor")
            return 7 if ex.get("junk") == "int" else [('k', 1), 7]

        def run_body(*_a):
            return interp(holder.ctx, holder.op["body"], [])
        ext = extractor if has_ex else None
        if op["classlevel"]:
            members = {"execute": classmethod(rec.class_operation(metadata_extractor=ext)(lambda c: run_body()))}
        else:
            members = {"execute": rec.operation(metadata_extractor=ext)(lambda self: run_body())}
        if base.get("inherits_op"):
            base_cls = type(str(base["name"]), (object,), members)
            cls = type(str(op["cls"]), (base_cls,), {})
        else:
            base_cls = type(str(base["name"]), (object,), {})
            cls = type(str(op["cls"]), (base_cls,), members)
        call = cls.execute if op["classlevel"] else (lambda: cls().execute())
        cache[key] = (holder, cls, call)
        bp = base.get("prm")
        if bp is not None:
            rec.recording_params(RecordingParameters(
                sampling_rate=float(Fraction(*bp["rate"])), ignore_enforced_sampling=bp["ignore"],
                skipped=bp["skipped"], copy_data_on_intercepion=bp["copy"]))(base_cls)
        if prm is not None:
            rec.recording_params(RecordingParameters(
                sampling_rate=float(Fraction(*prm["rate"])), ignore_enforced_sampling=prm["ignore"],
                skipped=prm["skipped"], copy_data_on_intercepion=prm["copy"]))(cls)
    holder, cls, call = cache[key]
    holder.ctx, holder.op = ctx, op
    return call


def build_operation(ctx, op, prm=None):
    if op.get("base"):
        return build_derived_operation(ctx, op, prm)
    rec = ctx.rec
    cache = rec.__dict__.setdefault("_verif_ops", {})
    has_ex = op["extractor"]["kind"] != "none"
    key = (op["cls"], op["classlevel"], has_ex, repr(sorted(prm.items())) if prm else None)
    if key not in cache:
        holder = OpHolder()

        audit = rec.static_intercept_output("audit")(lambda *a, **k: None)

        def extractor(*a, **k):
            ex = holder.op["extractor"]
            if ex["kind"] == "calls_out":
                # the extractor itself goes through an intercepted output (an audit trail, say); it runs after the operation,
                # so nothing it sends belongs to the recording.  Its own calls are not journalled (the extractor is opaque).
                for i in range(ex.get("n", 1)):
                    audit("extracted", i)
                return {kk: to_py(v) for kk, v in ex["d"]}
            if ex["kind"] == "dict":
                return shaped(ex, {kk: to_py(v) for kk, v in ex["d"]})
            if ex["kind"] == "raises":
                raise pv.HandlerError("extractor")
            return 7 if ex.get("junk") == "int" else [('k', 1), 7]

        def run_body(*_a):
            return interp(holder.ctx, holder.op["body"], [])
        ext = extractor if has_ex else None
        if op["classlevel"]:
            cls = type(str(op["cls"]), (object,), {
                "execute": classmethod(rec.class_operation(metadata_extractor=ext)(lambda c: run_body()))})
            call = cls.execute
        else:
            cls = type(str(op["cls"]), (object,), {
                "execute": rec.operation(metadata_extractor=ext)(lambda self: run_body())})
            call = lambda: cls().execute()   # noqa: E731
        cache[key] = (holder, cls, call)
        if prm is not None:
            # declared once, when the class is defined (as the @recording_params class decorator does)
            rec.recording_params(RecordingParameters(
                sampling_rate=rate_of(prm), ignore_enforced_sampling=prm["ignore"],
                skipped=prm["skipped"], copy_data_on_intercepion=prm["copy"]))(cls)
    holder, cls, call = cache[key]
    holder.ctx, holder.op = ctx, op
    return call


def rate_of(prm):
    """the sampling_rate a class is registered with: the number prm["rate"] stands for, or - optional prm["rate_raw"] - a value
    as it arrives from a configuration source that was never converted: None (missing key) / a text / a list"""
    raw = prm.get("rate_raw")
    if raw is None:
        return float(Fraction(*prm["rate"]))
    return {"none": None, "str": "0.5", "str-word": "high", "list": [1]}[raw]


class _KeysGetitem(object):
    """a mapping in the sense of dict(): keys() and __getitem__, nothing else"""
    def __init__(self, d):
        self._d = d

    def keys(self):
        return list(self._d)

    def __getitem__(self, k):
        return self._d[k]


def shaped(ex, d):
    """What a metadata extractor hands back: the dict d itself, or - optional ex["shape"] - the same key/value pairs in another
    of the forms dict() accepts (the recorder does metadata.update(dict(extractor())))."""
    shape = ex.get("shape", "dict")
    if shape == "dict":
        return d
    import collections
    import types
    if shape == "ordereddict":
        return collections.OrderedDict(d)
    if shape == "defaultdict":
        return collections.defaultdict(list, d)
    if shape == "mappingproxy":
        return types.MappingProxyType(d)
    if shape == "chainmap":
        items = list(d.items())
        return collections.ChainMap(dict(items[:1]), dict(items))       # per-run values over defaults
    if shape == "userdict":
        return collections.UserDict(d)
    if shape == "keys-getitem":
        return _KeysGetitem(d)
    if shape == "pairs-list":
        return list(d.items())
    if shape == "pairs-tuple":
        return tuple((k, v) for k, v in d.items())
    if shape == "pairs-lists":
        return [[k, v] for k, v in d.items()]
    if shape == "items-view":
        return d.items()
    if shape == "pairs-generator":
        return ((k, v) for k, v in d.items())
    raise ValueError(shape)


def force_flag_of(rec):
    """The forced-sampling state of the recorder, read defensively: the private field where it exists (wherever a version
    of the code keeps it, the property's observable is the public is_recording_sample_forced), else the public property."""
    if "_force_sample" in rec.__dict__:
        return bool(rec.__dict__["_force_sample"])
    return bool(rec.is_recording_sample_forced)


def state_of(rec):
    return {"active": rec._active_recording is not None, "enabled": bool(rec.recording_enabled),
            "force": force_flag_of(rec),
            "counter": sorted([k, v] for k, v in rec._invoke_counter.items() if v),
            "icpt": bool(rec._currently_in_interception),
            "public": [bool(rec.in_recording_mode), bool(rec.in_playback_mode), rec.current_recording_id is None,
                       bool(rec.is_recording_sample_forced), rec._playback_recording is None,
                       rec._playback_outputs == [], rec._active_recording_parameters is None]}


def make_cassette(kind):
    if kind == "file":
        d = tempfile.mkdtemp(prefix="verif_rec_")
        return FileBasedTapeCassette(d), lambda: shutil.rmtree(d, ignore_errors=True)
    if kind == "s3":
        import fake_s3
        s3c = fake_s3.install()
        make_cassette.n = getattr(make_cassette, "n", 0) + 1
        return s3c.S3TapeCassette("rb%d_%d" % (os.getpid(), make_cassette.n), key_prefix="pre", read_only=False), \
            fake_s3.reset
    return InMemoryTapeCassette(), lambda: None


def strip(c):
    """Remove the per-run function caches from the (shared) code terms."""
    if isinstance(c, dict):
        c.pop("_fn", None)
        c.pop("_ctx", None)
        for v in c.values():
            strip(v)
    elif isinstance(c, list):
        for v in c:
            strip(v)


def do_import_run(rec, spy, rng, run):
    """A recording that reaches the cassette WITHOUT going through the recorder (imported from elsewhere, written by a tool
    or an older writer through the cassette API): a copy of the data of the recording with creation ordinal run["src"] (an
    empty recording if that one was not kept) under a new id, with run["meta"] = "none" (no metadata at all) / "no_clock"
    (the source's metadata without duration and timestamp) / "user" (only the user's keys) / "full".  It gets the next
    creation ordinal, so that replays can target it."""
    spy.log = []
    src = None
    t = run.get("src")
    if t is not None and 0 <= t < len(spy.ids):
        try:
            src = spy.inner.get_recording(spy.ids[t])
        except NoSuchRecording:
            src = None
    cat = spy.inner.extract_recording_category(spy.ids[t]) if src is not None else run.get("cat", "Imported")
    new = spy.inner.create_new_recording(cat)
    spy.ords[new.id] = len(spy.ids)
    spy.ids.append(new.id)
    if src is not None:
        for k in list(src.get_all_keys()):
            new.set_data(k, src.get_data(k))
        meta = dict(src.get_metadata())
        how = run.get("meta", "none")
        if how == "no_clock":
            for k in CLOCK_KEYS:
                meta.pop(k, None)
        elif how == "user":
            meta = {k: v for k, v in meta.items() if not k.startswith("_tape_recorder_")}
        elif how == "none":
            meta = {}
        if meta:
            new.add_metadata(meta)
    spy.inner.save_recording(new)
    return {"outcome": {"o": "val", "v": {"t": "none"}}, "pbouts": [], "recouts": [], "trace": [], "cass": [],
            "state": state_of(rec), "identity_violations": 0, "journal": [{"j": "import", "copied": src is not None}],
            "draws_used": 0}


def do_one_run(rec, spy, rng, run):
    if run["kind"] == "import":
        return do_import_run(rec, spy, rng, run)
    ctx = Ctx(rec)
    spy.log = []
    draws_before = rng.pos
    if run["kind"] == "record":
        (rec.enable_recording if run["enabled"] else rec.disable_recording)()
        spy.save_fails = run.get("save_fails", False)
        call = build_operation(ctx, run["op"], run["prm"])
        try:
            if run.get("in_handler"):
                # the service calls the operation while it is handling another exception (a fallback in an except block)
                try:
                    raise RuntimeError("being handled")
                except RuntimeError:
                    r = call()
            else:
                r = call()
            o = {"o": "val", "v": from_py(r)}
        except BaseException as ex:
            o = outcome_of_exc(ex)
        ob = {"outcome": o, "pbouts": [], "recouts": []}
    else:
        (rec.enable_recording if run.get("enabled") else rec.disable_recording)()
        t = run["target"]
        rid = spy.ids[t] if t < len(spy.ids) else "Nope/0000"
        pf = run["pf"]
        if pf["kind"] == "op":
            call = build_operation(ctx, pf["op"], None)

            def playback_function(recording):
                call()
        else:
            def playback_function(recording):
                raise EXC[pf["ty"]]()
        before = repr(sorted(getattr(spy.inner, "_recordings", {}).items()))
        try:
            pb = rec.play(rid, playback_function)
            ob = {"outcome": {"o": "val", "v": {"t": "none"}},
                  "pbouts": datum_list((x.key, x.value) for x in pb.playback_outputs),
                  "recouts": datum_list((x.key, x.value) for x in pb.recorded_outputs)}
        except BaseException as ex:
            ob = {"outcome": outcome_of_exc(ex), "pbouts": [], "recouts": []}
        ob["store_changed"] = before != repr(sorted(getattr(spy.inner, "_recordings", {}).items()))
        if run.get("fresh_process"):
            ob["fresh"] = fresh_process_replay(spy, rid, run)
    ob["trace"] = ctx.trace
    ob["cass"] = spy.log
    ob["state"] = state_of(rec)
    ob["identity_violations"] = ctx.identity_violations
    ob["journal"] = ctx.journal
    ob["draws_used"] = rng.pos - draws_before
    strip(run)
    return ob


def fresh_process_replay(spy, rid, run):
    """The same replay again in ANOTHER interpreter (a new process that imports playback afresh and opens the same file
    cassette directory), as the studio replays what a service recorded: whatever the recording process keeps in memory does
    not exist there.  Watchdog: the child is killed after 120 s."""
    import subprocess
    import sys
    d = getattr(spy.inner, "directory", None)
    if d is None:
        return {"skipped": "cassette is not file based"}
    work = tempfile.mkdtemp(prefix="verif_xplay_")
    try:
        cin, cout = os.path.join(work, "in.json"), os.path.join(work, "out.json")
        json.dump([{"dir": d, "rid": rid, "run": _plain(run), "interrupt_kind": INTERRUPT_KIND[0], "unshare": UNSHARE[0]}],
                  open(cin, "w"))
        try:
            p = subprocess.run([sys.executable, os.path.abspath(__file__), "XPLAY", cin, cout], cwd="/", timeout=120,
                               stdout=subprocess.PIPE, stderr=subprocess.PIPE)
        except subprocess.TimeoutExpired:
            return {"error": "the replaying interpreter did not finish within 120 s"}
        if p.returncode != 0 or not os.path.exists(cout):
            return {"error": "the replaying interpreter ended with rc=%s: %s" % (p.returncode, p.stderr.decode("utf-8", "replace")[-400:])}
        res = json.load(open(cout))[0]
        if "driver_exception" in res:
            return {"error": res["driver_exception"]}
        return res
    finally:
        shutil.rmtree(work, ignore_errors=True)


def run_xplay(case):
    """(child side of fresh_process_replay)"""
    UNSHARE[0] = bool(case.get("unshare"))
    INTERRUPT_KIND[0] = case.get("interrupt_kind", "custom")
    rec = TapeRecorder(FileBasedTapeCassette(case["dir"]))
    run = case["run"]
    (rec.enable_recording if run.get("enabled") else rec.disable_recording)()
    ctx = Ctx(rec)
    call = build_operation(ctx, run["pf"]["op"], None)
    try:
        pb = rec.play(case["rid"], lambda recording: call())
        return {"outcome": {"o": "val", "v": {"t": "none"}},
                "pbouts": datum_list((x.key, x.value) for x in pb.playback_outputs),
                "recouts": datum_list((x.key, x.value) for x in pb.recorded_outputs)}
    except BaseException as ex:
        return {"outcome": outcome_of_exc(ex), "pbouts": [], "recouts": []}


def run_history(case):
    UNSHARE[0] = bool(case.get("unshare"))
    INTERRUPT_KIND[0] = case.get("interrupt_kind", "custom")
    inner, cleanup = make_cassette(case.get("cassette", "memory"))
    spy = Spy(inner)
    rec = TapeRecorder(spy)
    rng = ScriptedRandom(case.get("draws", []))
    rec._random = rng
    out = []
    res = {"runs": out}
    try:
        runs = case["runs"]
        if case.get("predeclare"):
            # the service declares all its operation classes (and their recording parameters) before anything runs
            for run in runs:
                if run["kind"] == "record":
                    build_operation(Ctx(rec), run["op"], run["prm"])
        for k, run in enumerate(runs):
            if case.get("probe_fresh") and k == len(runs) - 1:
                # C09: the same run on a FRESH recorder over the same cassette contents and draw position, first on a
                # deep copy of the cassette state so that the history's own last run still sees the same world
                import copy
                spy2 = copy.deepcopy(spy) if case.get("cassette", "memory") == "memory" else None
                if spy2 is not None:
                    rec2 = TapeRecorder(spy2)
                    rng2 = ScriptedRandom(case.get("draws", []))
                    rng2.pos = rng.pos
                    rec2._random = rng2
                    res["fresh_probe"] = do_one_run(rec2, spy2, rng2, copy.deepcopy(run))
            out.append(do_one_run(rec, spy, rng, run))
        if case.get("lookup"):
            # C18: the default lookup (skip_incomplete=True) per category, as creation ordinals
            from playback.studio.recordings_lookup import find_matching_recording_ids, RecordingLookupProperties
            rec.tape_cassette = inner      # lookups do not go through the spy's journal
            cats = sorted(set(r["op"]["cls"] for r in runs if r["kind"] == "record"))
            res["lookup"] = {c: sorted(spy.ords.get(i, -1) for i in find_matching_recording_ids(
                rec, c, RecordingLookupProperties(start_date=None))) for c in cats}
            rec.tape_cassette = spy
        if case.get("lookup_variants"):
            res["lookup_variants"] = lookup_variants(rec, spy, inner, runs)
    finally:
        cleanup()
    return res


def lookup_variants(rec, spy, inner, runs):
    """C18: find_matching_recording_ids per category (creation ordinals) with lookup-properties objects that reached their
    state in other ways than through the constructor alone: attributes assigned after construction, one object reused for
    every category and looked up twice.  What counts is the object's state at lookup time."""
    from playback.studio.recordings_lookup import find_matching_recording_ids, RecordingLookupProperties
    cats = sorted(set(r["op"]["cls"] for r in runs if r["kind"] == "record"))
    K_EXC = TapeRecorder.EXCEPTION_IN_OPERATION

    def late_on():
        p = RecordingLookupProperties(start_date=None, skip_incomplete=False)
        p.skip_incomplete = True
        return p

    def late_off():
        p = RecordingLookupProperties(start_date=None)
        p.skip_incomplete = False
        return p

    def meta_none():
        p = RecordingLookupProperties(start_date=None, metadata={})
        p.metadata = None
        return p

    def meta_empty():
        p = RecordingLookupProperties(start_date=None)
        p.metadata = {}
        return p

    def meta_filter():
        p = RecordingLookupProperties(start_date=None)
        p.metadata = {K_EXC: False}          # re-targeted after construction: complete runs that returned
        return p

    def ctor_filter():
        return RecordingLookupProperties(start_date=None, metadata={K_EXC: False})

    def ctor_off():
        return RecordingLookupProperties(start_date=None, skip_incomplete=False)

    out = {}
    rec.tape_cassette = inner      # lookups do not go through the spy's journal
    try:
        for name, mk in (("late_on", late_on), ("late_off", late_off), ("meta_none", meta_none), ("meta_empty", meta_empty),
                         ("meta_filter", meta_filter), ("ctor_filter", ctor_filter), ("ctor_off", ctor_off)):
            try:
                per = {c: sorted(spy.ords.get(i, -1) for i in find_matching_recording_ids(rec, c, mk())) for c in cats}
                shared = mk()          # ONE object for every category (as the studio does), each category looked up twice
                again = {}
                for c in cats + cats:
                    again[c] = sorted(spy.ords.get(i, -1) for i in find_matching_recording_ids(rec, c, shared))
                out[name] = {"fresh": per, "shared": again}
            except Exception as ex:
                out[name] = {"error": type(ex).__name__ + ": " + str(ex)[:200]}
        try:
            # one object whose skip_incomplete is switched off and on again between lookups
            p = RecordingLookupProperties(start_date=None)
            look = lambda: {c: sorted(spy.ords.get(i, -1) for i in find_matching_recording_ids(rec, c, p)) for c in cats}  # noqa: E731
            tog = {"on1": look()}
            p.skip_incomplete = False
            tog["off"] = look()
            p.skip_incomplete = True
            tog["on2"] = look()
            out["toggle"] = tog
        except Exception as ex:
            out["toggle"] = {"error": type(ex).__name__ + ": " + str(ex)[:200]}
        try:
            # the caller's own filter dict (matches every recording: a key nobody sets must be absent): a default lookup,
            # then the same object with skip_incomplete switched off, then the same DICT given to a new object
            flt = {"verif_no_such_key": [None]}
            p = RecordingLookupProperties(start_date=None, metadata=flt)
            look = lambda q: {c: sorted(spy.ords.get(i, -1) for i in find_matching_recording_ids(rec, c, q)) for c in cats}  # noqa: E731
            own = {"on": look(p)}
            p.skip_incomplete = False
            own["off"] = look(p)
            own["other_object"] = look(RecordingLookupProperties(start_date=None, metadata=flt, skip_incomplete=False))
            own["filter_keys_after"] = sorted(flt)
            out["own_filter"] = own
        except Exception as ex:
            out["own_filter"] = {"error": type(ex).__name__ + ": " + str(ex)[:200]}
    finally:
        rec.tape_cassette = spy
    return out


def seed_of(case):
    """the seed value a C17 'seeded' case stands for (JSON cannot carry bytes)"""
    sd = case["seed"]
    if case.get("seed_type") == "bytes":
        return sd.encode("latin-1")
    if case.get("seed_type") == "float":
        return float(sd)
    if case.get("seed_type") == "bool":
        return bool(sd)
    return sd


def run_c17(case):
    kind = case.get("kind", "history")
    if kind == "history":
        return run_history(case)
    if kind == "s3":
        import fake_s3
        s3c = fake_s3.install()
        ratio = case["ratio"]
        calc = None if ratio is None else (lambda category, size, recording: float(Fraction(*ratio)))
        run_c17.n = getattr(run_c17, "n", 0) + 1
        cas = s3c.S3TapeCassette("c17b%d_%d" % (os.getpid(), run_c17.n), key_prefix="k", read_only=False,
                                 sampling_calculator=calc)
        cas._random = ScriptedRandom([case["draw"]])
        rec = cas.create_new_recording("Op")
        rec.set_data("k", 1)
        cas.save_recording(rec)
        try:
            cas.get_recording(rec.id)
            kept = True
        except NoSuchRecording:
            kept = False
        return {"kept": kept, "draws_used": cas._random.pos}
    if kind == "s3hist":
        import s3sample_driver
        return s3sample_driver.run(case)
    # seeded real Random: decisions of a history, twice, and of a content/outcome-varied twin
    def decisions(runs, threaded=False):
        import threading
        spy = Spy(InMemoryTapeCassette())
        rec = TapeRecorder(spy, random_seed=seed_of(case))
        out = []
        for run in runs:
            spy.log = []
            rec.enable_recording()
            call = build_operation(Ctx(rec), run["op"], run["prm"])

            def guarded(call=call):
                try:
                    call()
                except BaseException:
                    pass
            if threaded:          # every operation of the history on a thread of its own (a server's worker threads)
                t = threading.Thread(target=guarded)
                t.start()
                t.join()
            else:
                guarded()
            out.append("save" if any(c["c"] == "save" for c in spy.log) else "abort")
        return out
    a1, a2, b = decisions(case["runs_a"]), decisions(case["runs_a"]), decisions(case["runs_b"])
    return {"a1": a1, "a2": a2, "b": b, "a_threads": decisions(case["runs_a"], threaded=True), "kept": a1.count("save"), "n": len(a1)}


def run_mutation_probe(case):
    """C01 probe stream (implementation only, self-contained): hand-written straight-line operations that keep working IN
    PLACE on what an intercepted input returned, AFTER it was captured, with copy-on-interception on, and whose later
    behaviour (outputs sent, result) depends on the container's state before and after the change.  Steps:
    ["load", var, alias] (var = the intercepted input `alias`, whose body returns a fresh to_py(case["inputs"][alias])),
    ["mut", var, path, op, arg] (in-place `op` on the node reached from var along path: int index / str key / ["attr", name]),
    ["send", var] (the intercepted output `send` gets an immutable snapshot text of var), ["force"] (the operation calls
    force_sample_recording(); case["rate"] is the class's sampling rate), ["ret", [var, ..]] (the operation returns the
    snapshot texts).  Recorded into the case's cassette, replayed case["plays"] times on the same code."""
    inner, cleanup = make_cassette(case.get("cassette", "memory"))
    spy = Spy(inner)
    rec = TapeRecorder(spy)
    handed, bodies = [], []

    def show(j):
        t, v = j["t"], j.get("v")
        if t in ("list", "tuple", "set"):
            inner_ = ", ".join(show(x) for x in v)
            return {"list": "[%s]", "tuple": "(%s,)" if len(v) == 1 else "(%s)", "set": "set{%s}"}[t] % inner_
        if t in ("dict", "obj"):
            inner_ = ", ".join("%s: %s" % (json.dumps(k), show(x)) for k, x in v)
            return "{%s}" % inner_ if t == "dict" else "%s{%s}" % (j["cls"].rsplit(".", 1)[-1], inner_)
        return json.dumps(v) if t in ("str", "int", "bool", "none") else json.dumps(j, sort_keys=True)

    def snap(v):
        """immutable, canonical (dict / attribute / set order insensitive, type aware) text of a value"""
        return show(pv.canon_json(from_py(v)))

    def node(v, path):
        for p in path:
            v = getattr(v, p[1]) if isinstance(p, list) else v[p]
        return v

    def mutate(o, op, arg):
        a = None if arg is None else to_py(arg)
        if op == "setattr":
            setattr(o, a[0], a[1])
        elif op == "setitem":
            o[a[0]] = a[1]
        elif op == "delitem":
            del o[a]
        elif op == "sort":
            o.sort()
        elif op in ("append", "extend", "add", "update", "remove", "discard"):
            getattr(o, op)(a)
        elif op in ("clear", "reverse", "pop", "popitem"):
            getattr(o, op)()
        else:
            raise ValueError(op)

    def make_input(alias):
        handler = {"none": None, "plain": WrapIn(plain=True), "wrap": WrapIn()}[case.get("handler", "none")]

        def body(*a):
            bodies.append(alias)
            return to_py(case["inputs"][alias])
        if case.get("static"):
            return rec.static_intercept_input(alias, data_handler=handler)(body)
        fn = rec.intercept_input(alias, data_handler=handler)(lambda self, *a: body(*a))
        return lambda *a: fn(holder, *a)

    holder = object()
    inputs = {alias: make_input(alias) for alias in sorted(case["inputs"])}
    send = rec.static_intercept_output("send")(lambda text: None)

    @rec.recording_params(RecordingParameters(sampling_rate=case.get("rate", 1.0), copy_data_on_intercepion=bool(case.get("copy", True))))
    class MutOp(object):
        @rec.operation()
        def execute(self):
            env = {}
            for st in case["steps"]:
                if st[0] == "load":
                    env[st[1]] = inputs[st[2]](*[to_py(x) for x in st[3:]])
                    handed.append([st[2], snap(env[st[1]])])
                elif st[0] == "mut":
                    mutate(node(env[st[1]], st[2]), st[3], st[4] if len(st) > 4 else None)
                elif st[0] == "send":
                    send(snap(env[st[1]]))
                elif st[0] == "force":
                    rec.force_sample_recording()
                elif st[0] == "ret":
                    return [snap(env[v]) for v in st[1]]
            return None

    def attempt(f):
        del handed[:], bodies[:]
        try:
            r = f()
            o = {"o": "val", "v": from_py(r)}
        except BaseException as ex:
            o = outcome_of_exc(ex)
        return o, [list(h) for h in handed], list(bodies)

    out = {"plays": []}
    try:
        rec.enable_recording()
        out["outcome"], out["handed"], _ = attempt(lambda: MutOp().execute())
        rec.disable_recording()
        saves = [c for c in spy.log if c["c"] == "save"]
        out["saved"] = bool(saves)
        out["fetch_ok"] = bool(saves) and saves[0]["fetch_ok"]
        out["recorded"] = saves[0]["data"] if saves else None
        for _ in range(case.get("plays", 1) if saves else 0):
            box = {}

            def play():
                box["pb"] = rec.play(spy.ids[0], lambda recording: MutOp().execute())
            o, h, b = attempt(play)
            pb = box.get("pb")
            out["plays"].append({"outcome": o, "handed": h, "bodies_run": b,
                                 "pbouts": datum_list((x.key, x.value) for x in pb.playback_outputs) if pb else [],
                                 "recouts": datum_list((x.key, x.value) for x in pb.recorded_outputs) if pb else []})
    finally:
        cleanup()
    return out


def run_c04(case):     # (C04 and C05: recorder histories and racing-threads cases)
    if case.get("kind") == "probe":
        import c04_probes
        return c04_probes.run_probe(case)
    if case.get("kind") == "race":
        import race_driver
        return race_driver.run_race(case)
    return run_history(case)


if __name__ == '__main__':
    hs = {p: run_history for p in ("C01", "C02", "C03", "C05", "C09", "C18", "REC")}
    def _with_probes(fallback):
        # round-6 case kinds (rec_probes.py: "xproc", "nested", "exc_history") in front of a property's own dispatch
        def run(case):
            import rec_probes
            f = rec_probes.KINDS.get(case.get("kind"))
            return f(case) if f else fallback(case)
        return run
    hs["C01"] = _with_probes(lambda case: run_mutation_probe(case) if case.get("kind") == "mutation" else run_history(case))
    hs["C02"] = hs["C03"] = _with_probes(lambda case: __import__("alias_probes").run_alias_probe(case) if case.get("kind") == "alias" else run_history(case))
    hs["XSEG"] = lambda job: __import__("rec_probes").run_segment(job)
    hs["C04"] = run_c04
    hs["C05"] = run_c04
    hs["C09"] = run_c04
    hs["C17"] = run_c17
    hs["XPLAY"] = run_xplay
    import rec2_probes      # round-7 case kinds (rec2_probes.KINDS) in front of these properties' own dispatch
    for _p in ("C04", "C05", "C09", "C17", "C18"):
        hs[_p] = rec2_probes.in_front_of(hs[_p])
    main(hs)
