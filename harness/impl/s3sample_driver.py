"""C17, storage-level sampling of the REAL S3TapeCassette over histories: several cassettes created in ONE process
(sequentially, interleaved, with an unrelated cassette saving in between), each with a size-based sampling calculator
and its OWN generator as constructed by the cassette (nothing is substituted: a tap around whatever `cas._random`
resolves to only records the draws that pass through it).

case = {"kind": "s3hist", "bands": [[max_compressed_size or None, [n, d]], ..], "master": [payload length, ..],
        "cassettes": [{"n": saves (prefix of master), "twin": other content and category, "share_bucket": bool,
                       "via": "recorder" (the recordings are made by a real TapeRecorder around an operation that records
                       the payload) or absent (recordings saved straight on the cassette), "outcomes": per save
                       "return" / "raise" / "interrupt" (recorder only)}, ..],
        "schedule": [cassette index per save, in process order]}
observation per cassette: per save {"ratio": [n, d], "size": the size the calculator was given, "stored_size": byte length of
the object a reference cassette without calculator stores for the same recording, "kept": bool, "draws": [[n, d], ..] or None}."""
import os
import random
from fractions import Fraction

import fake_s3

from playback.exceptions import NoSuchRecording

_n = [0]


class Tap(object):
    """Records the draws of the generator it wraps; every other attribute is the generator's."""
    def __init__(self, inner):
        self._inner = inner
        self.log = []

    def random(self):
        v = self._inner.random()
        self.log.append(v)
        return v

    def __getattr__(self, name):
        return getattr(self._inner, name)


def payload(length, pos, twin, kind="random"):
    if kind == "repetitive":          # compresses to a few dozen bytes whatever its length (encoded size >> stored size)
        return ("%d:" % pos + ("cd" if twin else "ab") * length)[:length]
    src = random.Random(7919 * pos + (104729 if twin else 0) + length)
    return "".join(src.choice("0123456789abcdef") for _ in range(length))


def make_calculator(bands, log):
    def calculator(category, size, recording):
        for limit, ratio in bands:
            if limit is None or size < limit:
                log.append((ratio, size))
                return float(Fraction(*ratio))
        raise AssertionError("bands must end with an open band")
    return calculator


class OperationFailed(Exception):
    """the recorded operation ends by raising"""


class OperationInterrupted(BaseException):
    """the recorded operation is interrupted (not an Exception subclass, like KeyboardInterrupt)"""


def make_operation(recorder, twin, seen_ids):
    """a class with one operation decorated by the REAL recorder: it records its payload and then returns / raises /
    is interrupted; the recording is created, finished and handed to the cassette by TapeRecorder itself"""
    class Operation(object):
        @recorder.operation()
        def execute(self, data, outcome):
            seen_ids.append(recorder.current_recording_id)
            recorder.record_data("payload", data)
            if outcome == "raise":
                raise OperationFailed("operation failed")
            if outcome == "interrupt":
                raise OperationInterrupted()
            return "fine"
    Operation.__name__ = "OperationTwin" if twin else "Operation"     # the class name is the recording's category
    return Operation


def stored_size(ref, rec_id):
    """byte length of the object the reference cassette (no sampling) stores for the recording this save was about"""
    cas, handed = ref
    mine = [r for r in handed if r.id == rec_id]
    del handed[:]
    if len(mine) != 1:
        return None
    try:
        cas.save_recording(mine[0])
        key = cas.FULL_KEY.format(key_prefix=cas.key_prefix, id=rec_id)
        return len(fake_s3.store(cas.bucket).data[key][0])
    except Exception:
        return None


def run(case):
    s3c = fake_s3.install()
    _n[0] += 1
    base = "c17h%d_%d" % (os.getpid(), _n[0])       # never reuse a bucket name: the fake stores are global
    live = {}
    refs = {}
    pk = case.get("payload_kind", "random")
    out = [[] for _ in case["cassettes"]]
    done = [0] * len(case["cassettes"])

    def cassette(i):
        if i not in live:                             # created right before its first save
            spec = case["cassettes"][i]
            bucket = base if spec.get("share_bucket") else "%s_%d" % (base, i)
            log = []
            cas = s3c.S3TapeCassette(bucket, key_prefix="k%d" % i, read_only=False,
                                     sampling_calculator=make_calculator(case["bands"], log))
            # every recording that reaches this cassette is also stored, unsampled, by a reference cassette without a
            # calculator (other bucket): the byte length of that object is the size the recording has in storage
            handed = []
            real_save = cas.save_recording

            def save_and_note(recording, real_save=real_save, handed=handed):
                handed.append(recording)
                return real_save(recording)
            cas.save_recording = save_and_note
            refs[i] = (s3c.S3TapeCassette("%s_ref%d" % (base, i), key_prefix="k%d" % i, read_only=False), handed)
            inner = getattr(cas, "_random", None)
            tap = None
            if inner is not None and hasattr(inner, "random"):
                tap = Tap(inner)
                try:
                    cas._random = tap
                except AttributeError:                # not assignable: decisions only, draws stay unobserved
                    tap = None
            op_cls, seen_ids = None, []
            if spec.get("via") == "recorder":
                # the cassette is fed THROUGH a TapeRecorder (class sampling rate 1: the recorder keeps everything, the
                # storage level decides), the way a service uses it
                from playback.tape_recorder import TapeRecorder
                recorder = TapeRecorder(cas, random_seed=110613)
                recorder.enable_recording()
                op_cls = make_operation(recorder, spec.get("twin"), seen_ids)
            live[i] = (cas, log, tap, op_cls, seen_ids)
        return live[i]

    for i in case["schedule"]:
        spec = case["cassettes"][i]
        cas, log, tap, op_cls, seen_ids = cassette(i)
        pos = done[i]
        done[i] += 1
        n_calc, n_draws = len(log), (len(tap.log) if tap else 0)
        if op_cls is None:
            rec = cas.create_new_recording("OpTwin" if spec.get("twin") else "Op")
            rec.set_data("k", payload(case["master"][pos], pos, spec.get("twin"), pk))
            cas.save_recording(rec)
            rec_id = rec.id
        else:
            outcome = (spec.get("outcomes") or ["return"])[pos % len(spec.get("outcomes") or ["return"])]
            try:
                op_cls().execute(payload(case["master"][pos], pos, spec.get("twin"), pk), outcome)
            except (OperationFailed, OperationInterrupted):
                pass
            rec_id = seen_ids[-1]
        try:
            cas.get_recording(rec_id)
            kept = True
        except NoSuchRecording:
            kept = False
        calls = log[n_calc:]
        out[i].append({"ratio": calls[0][0] if len(calls) == 1 else None, "size": calls[0][1] if calls else None,
                       "stored_size": stored_size(refs[i], rec_id),
                       "calc_calls": len(calls), "kept": kept,
                       "draws": None if tap is None else
                       [[Fraction(d).numerator, Fraction(d).denominator] for d in tap.log[n_draws:]]})
    return {"cassettes": out}
