"""Shared entry point for implementation drivers:  driver.py <PROPERTY> <cases.json> <obs.json>."""
import json
import logging
import sys
import traceback


class _FormatAndDrop(logging.Handler):
    """what any real handler does with a record - format it - and nothing else"""
    def emit(self, record):
        try:
            self.format(record)
        except Exception:
            pass


def main(handlers):
    import os
    if os.environ.get("VERIF_LOG_DEBUG"):
        # the same cases with diagnostics switched on: every logger at DEBUG, every record formatted
        logging.raiseExceptions = False
        root = logging.getLogger()
        root.setLevel(logging.DEBUG)
        root.addHandler(_FormatAndDrop())
    else:
        logging.disable(logging.CRITICAL)
    pid, cin, cout = sys.argv[1], sys.argv[2], sys.argv[3]
    cases = json.load(open(cin))
    run = handlers[pid]
    out = []
    for c in cases:
        try:
            out.append(run(c))
        except BaseException as ex:  # the driver itself must not die on one case
            out.append({"driver_exception": "%s: %s" % (type(ex).__name__, ex),
                        "trace": traceback.format_exc()[-1500:]})
    json.dump(out, open(cout, "w"))
