"""C11: identity walks and mutate / re-read / re-fetch / re-play probes on the REAL classes
(MemoryRecording, pickle_copy, TapeRecorder, the three cassettes; fake boto3 only behind the
real S3BasicFacade), plus jsonpickle itself for the model correspondence (kind "codec").

Every observable is canonical JSON: identity is reported as counts / paths of SHARED mutable
nodes, data as order-insensitive snapshots (lib.heapgraph.snap); no ids, uuids, addresses.
"""
import os
import shutil
import sys
import tempfile

import jsonpickle

import fake_s3
from driver_common import main
from lib import heapgraph as hg
from lib import pyvals as pv

from playback.recordings.memory.memory_recording import MemoryRecording
from playback.tape_recorder import TapeRecorder, RecordingParameters
from playback.tape_cassettes.in_memory.in_memory_tape_cassette import InMemoryTapeCassette
from playback.tape_cassettes.file_based.file_based_tape_cassette import FileBasedTapeCassette

_count = [0]


def clip(s, n=400):
    return s if len(s) <= n else s[:n] + "...(%d chars)" % len(s)


def err_name(ex):
    return type(ex).__name__


# ---------------------------------------------------------------------------------------------
# kind "codec": what jsonpickle does with a graph (model correspondence)

def run_codec(case):
    graph = case["graph"]
    objs, root = hg.build(graph)
    out = {"set_orders": {str(i): [pv.from_py(e) for e in objs[i]]
                          for i, nd in enumerate(graph["heap"]) if nd["k"] == "set"},
           "orig_shape": hg.shape_text(root)}
    try:
        text = jsonpickle.encode(root, unpicklable=True)
    except BaseException as ex:
        out.update(enc=None, enc_err=err_name(ex))
        return out
    out["enc"] = text
    try:
        dec = jsonpickle.decode(text)
    except BaseException as ex:
        out.update(dec_shape=None, dec_err=err_name(ex))
        return out
    out["dec_shape"] = hg.shape_text(dec)
    try:
        out["reenc"] = jsonpickle.encode(dec, unpicklable=True)
    except BaseException as ex:
        out.update(reenc=None, reenc_err=err_name(ex))
    # independence of the copy from the original, on jsonpickle alone
    out["copy_shares_original"] = hg.shared_mutable(dec, root)
    return out


# ---------------------------------------------------------------------------------------------
# cassettes

def make_cassette(ctype):
    _count[0] += 1
    if ctype == "mem":
        return InMemoryTapeCassette(), None
    if ctype == "file":
        d = tempfile.mkdtemp(prefix="heap-c11-", dir="/tmp")
        return FileBasedTapeCassette(d), d
    if ctype == "s3":
        s3c = fake_s3.install()
        fake_s3.reset()
        # never reuse a bucket name: the fake stores are global
        return s3c.S3TapeCassette("c11-%d-%d" % (os.getpid(), _count[0]), key_prefix="pfx", read_only=False), None
    raise ValueError(ctype)


def drop_cassette(cas, tmp):
    if tmp:
        shutil.rmtree(tmp, ignore_errors=True)


def rec_root(recording):
    """Everything a fetched recording hands out: the object, its data dict, its metadata dict."""
    return recording


def rec_snapshot(recording):
    """What later reads of a fetched recording observe: every key through get_data_direct AND
    through get_data, and the metadata."""
    keys = sorted(recording.get_all_keys())
    return hg.snap({"direct": {k: recording.get_data_direct(k) for k in keys},
                    "copied": {k: recording.get_data(k) for k in keys},
                    "metadata": recording.get_metadata()})


# ---------------------------------------------------------------------------------------------
# kind "rec": MemoryRecording.get_data / get_data_direct / __getitem__

def run_rec(case):
    rec = MemoryRecording("Op/1")
    keep = []
    for key, graph in case["data"]:
        v = hg.build(graph)[1]
        keep.append(v)
        rec.set_data(key, v)
    out = {"keys": []}
    for key, _ in case["data"]:
        o = {"key": key}
        direct = rec.get_data_direct(key)
        stored0 = hg.snap(direct)
        try:
            r1 = rec.get_data(key)
        except BaseException as ex:     # the copy itself cannot be made (fidelity of the serializer: C07's matter)
            out["keys"].append({"key": key, "skipped": "first get_data raised " + err_name(ex)})
            continue
        r2 = rec[key]
        o["n_mutable"] = len(hg.mutable_nodes(direct))
        o["share_read_stored"] = hg.shared_mutable(r1, direct)
        o["share_item_stored"] = hg.shared_mutable(r2, direct)
        o["share_two_reads"] = hg.shared_mutable(r1, r2)
        s1 = hg.snap(r1)
        o["read_equals_stored"] = (s1 == stored0)       # informational: faithfulness is C07's business
        o["two_reads_equal"] = (hg.snap(r2) == s1)
        o["mutated_nodes"] = hg.mutate(r1, case["script"])
        r3 = rec.get_data(key)
        s3 = hg.snap(r3)
        o["reread_same"] = (s3 == s1)
        o["stored_same"] = (hg.snap(rec.get_data_direct(key)) == stored0)
        o["other_read_same"] = (hg.snap(r2) == s1)
        if not (o["reread_same"] and o["stored_same"] and o["other_read_same"]):
            o["first_read"], o["later_read"] = clip(s1), clip(s3)
            o["stored_before"], o["stored_after"] = clip(stored0), clip(hg.snap(rec.get_data_direct(key)))
        hg.mutate(r2, case["script"][::-1])
        o["reread_same_2"] = (hg.snap(rec[key]) == s1)
        out["keys"].append(o)
    return out


# ---------------------------------------------------------------------------------------------
# kind "cas": get_recording on each cassette

def run_cas(case):
    cas, tmp = make_cassette(case["ctype"])
    try:
        return _run_cas(case, cas)
    finally:
        drop_cassette(cas, tmp)


def _lookup(cas, flt):
    return len(list(cas.iter_recording_ids("Op", metadata=flt or None)))


def _run_cas(case, cas):
    ctype = case["ctype"]
    rec = cas.create_new_recording("Op")
    for key, graph in case["data"]:
        rec.set_data(key, hg.build(graph)[1])
    meta = hg.build(case["meta"])[1]
    rec.add_metadata(meta)
    cas.save_recording(rec)
    rid = rec.id
    out = {"steps": []}
    try:
        first = cas.get_recording(rid)
        base = rec_snapshot(first)
    except BaseException as ex:         # what was saved cannot be fetched at all: not an independence question
        return {"skipped": "first fetch raised " + err_name(ex)}
    out["share_fetch_saved"] = hg.shared_mutable(first, rec)
    # the object that was saved keeps living in the recorder's hands: changing it must not reach the store
    hg.mutate(rec.recording_data, case["script"])
    hg.mutate(rec.recording_metadata, case["script"])
    out["after_mutating_saved_object"] = (rec_snapshot(cas.get_recording(rid)) == base)
    out["share_fetch_cassette"] = hg.shared_mutable(first, cas)
    keep = [first]
    for step in case["steps"]:
        s = {"step": step}
        if step == "lookup":
            s["found"] = _lookup(cas, None)
        elif step == "lookup_meta":
            s["found"] = _lookup(cas, case.get("filter"))
        elif step == "fetch2":
            f1, f2 = cas.get_recording(rid), cas.get_recording(rid)
            keep += [f1, f2]
            s["share"] = hg.shared_mutable(f1, f2)
            s["share_cassette"] = hg.shared_mutable(f1, cas)
            s["equal"] = (rec_snapshot(f1) == base and rec_snapshot(f2) == base)
        elif step == "mutate_fetch":
            f = cas.get_recording(rid)
            keep.append(f)
            s["mutated_nodes"] = hg.mutate(f.recording_data, case["script"]) + \
                hg.mutate(f.get_metadata(), case["script"])
            f["input: injected later"] = {"value": ["tampered"]}
            f.get_metadata()["tampered"] = True
        elif step == "mutate_read":
            f = cas.get_recording(rid)
            keep.append(f)
            ks = sorted(f.get_all_keys())
            before = hg.snap({k: f.get_data(k) for k in ks})
            s["mutated_nodes"] = sum(hg.mutate(f.get_data(k), case["script"]) for k in ks)
            copies = [f.get_data(k) for k in ks]
            for c in copies:
                hg.mutate(c, case["script"])
            s["reads_same"] = (hg.snap({k: f.get_data(k) for k in ks}) == before)
        elif step == "metadata_api":
            m1, m2 = cas.get_recording_metadata(rid), cas.get_recording_metadata(rid)
            keep += [m1, m2]
            s["share"] = hg.shared_mutable(m1, m2)
            s["share_cassette"] = hg.shared_mutable(m1, cas)
            before = hg.snap(m1)
            hg.mutate(m1, case["script"])
            s["equal"] = (hg.snap(cas.get_recording_metadata(rid)) == before)
        later = rec_snapshot(cas.get_recording(rid))
        s["fetch_same"] = (later == base)
        if not s["fetch_same"]:
            s["saved"], s["later"] = clip(base, 600), clip(later, 600)
        out["steps"].append(s)
    if ctype == "s3":
        out["lookup_after"] = _lookup(cas, case.get("filter"))
    return out


# ---------------------------------------------------------------------------------------------
# kind "play": values injected into replayed code, recorded_outputs, second replay

def run_play(case):
    cas, tmp = make_cassette(case["ctype"])
    try:
        return _run_play(case, cas)
    finally:
        drop_cassette(cas, tmp)


def _run_play(case, cas):
    rec = TapeRecorder(cas)
    rec.enable_recording()
    script = case["script"]
    g_in, g_out, g_data = case["vin"], case["vout"], case["vdata"]
    log = []
    cur = {"recording": None}

    def seen(tag, value):
        """Called by the replayed code right when a value is handed to it."""
        if rec.in_playback_mode:
            log.append({"tag": tag, "snap": hg.snap(value), "value": value,
                        "share_recording": hg.shared_mutable(value, cur["recording"])})

    from playback.interception.input_interception import InputInterceptionDataHandler
    from playback.tape_recorder import CapturedArg

    class BufferHandler(InputInterceptionDataHandler):
        """An input that delivers its data through a caller supplied buffer (out-parameter)."""
        def prepare_input_for_recording(self, interception_key, result, args, kwargs):
            return {"count": result, "rows": list(args[2])}

        def restore_input_from_recording(self, recorded_data, args, kwargs):
            args[2].extend(recorded_data["rows"])
            return recorded_data["count"]

    # case["renamed"]: the replayed code is a LATER VERSION whose inputs were renamed - it declares them under new aliases with
    # the recorded ones as fallback_aliases (None: same aliases as recorded | "list": a list, the old alias second after one
    # that was never recorded | "callable": a function of the call's arguments returning the list)
    renamed = case.get("renamed")

    def make_svc(version):
        def names(alias):
            if version == "recorded" or not renamed:
                return dict(alias=alias)
            old = [alias + '_v0', alias]
            return dict(alias=alias + '_v2', fallback_aliases=old if renamed == "list" else (lambda *a, **k: list(old)))

        class Svc(object):
            @rec.intercept_input(**names('load'))
            def load(self, n):
                return hg.build(g_in)[1]

            @rec.intercept_input(data_handler=BufferHandler(), capture_args=[CapturedArg(1, 'n')], **names('fill'))
            def fill(self, n, into):
                into.extend([hg.build(g_in)[1], hg.build(g_data)[1]])
                return len(into)

            @rec.intercept_input(**names('fail'))
            def fail(self):
                raise ValueError('boom')

            @rec.intercept_output('store')
            def store(self, payload):
                return hg.build(g_out)[1]
        return Svc
    svc_classes = {False: make_svc("recorded"), True: make_svc("replayed")}

    class Op(object):
        @rec.operation(metadata_extractor=lambda *a, **k: {"tags": ["nightly", "eu"], "tenant": "acme"})
        def execute(self):
            svc = svc_classes[bool(rec.in_playback_mode)]()
            a = svc.load(1)
            seen("in1", a)
            hg.mutate(a, script)                 # replayed code mutates the injected input
            b = svc.load(1)
            seen("in2", b)
            if rec.in_playback_mode:
                d1 = rec.play_data("blob")
                seen("data1", d1)
                hg.mutate(d1, script)
                d2 = rec.play_data("blob")
                seen("data2", d2)
            else:
                rec.record_data("blob", hg.build(g_data)[1])
            buf1 = []
            svc.fill(1, buf1)
            seen("buf1", buf1)
            hg.mutate(buf1, script)
            buf2 = []
            svc.fill(1, buf2)
            seen("buf2", buf2)
            r1 = svc.store(a)
            seen("res1", r1)
            hg.mutate(r1, script)
            r2 = svc.store(b)
            seen("res2", r2)
            try:
                svc.fail()
            except ValueError as e1:
                seen("exc1", e1)
                e1.tainted = ["x"]
            try:
                svc.fail()
            except ValueError as e2:
                seen("exc2", e2)
            return hg.snap([b, r2])

    Op().execute()
    rec.disable_recording()
    try:
        rid = cas.get_last_recording_id() if hasattr(cas, "get_last_recording_id") else None
        if rid is None:
            rid = list(cas.iter_recording_ids("Op"))[0]
    except BaseException as ex:          # (the file cassette's lookup fetches) what was recorded cannot be fetched at all
        return {"skipped": "first fetch raised " + err_name(ex)}
    out = {"plays": []}

    def fn(recording):
        cur["recording"] = recording
        Op().execute()

    keep = []
    try:
        fetched_keys = sorted(cas.get_recording(rid).get_all_keys())
    except BaseException as ex:          # what was recorded cannot be fetched at all: not an independence question
        return {"skipped": "first fetch raised " + err_name(ex)}
    for k, pre in enumerate(case["pre_steps"]):
        del log[:]
        if pre == "lookup":
            list(cas.iter_recording_ids("Op"))
        elif pre == "lookup_meta":
            list(cas.iter_recording_ids("Op", metadata={"tenant": "acme"}))
        elif pre == "fetch_mutate":
            f = cas.get_recording(rid)
            keep.append(f)
            hg.mutate(f.recording_data, script)
            hg.mutate(f.get_metadata(), script)
        if k == 0:
            try:
                pb = rec.play(rid, fn)
            except BaseException as ex:  # the recording cannot be replayed at all: not an independence question
                return {"skipped": "first replay raised " + err_name(ex)}
        else:
            pb = rec.play(rid, fn)
        p = {"pre": pre}
        p["injected"] = [[e["tag"], e["snap"]] for e in log]
        p["share_injected_recording"] = max([e["share_recording"]["n"] for e in log] or [0])
        p["share_detail"] = next(([e["tag"], e["share_recording"]] for e in log if e["share_recording"]["n"]), None)
        # two reads of the same key inside one replay: the first was mutated before the second was made
        snaps = dict((e["tag"], e["snap"]) for e in log)
        p["second_read_same"] = [snaps.get(x) == snaps.get(y) for x, y in
                                 (("in1", "in2"), ("data1", "data2"), ("exc1", "exc2"), ("buf1", "buf2"))]
        vals = dict((e["tag"], e["value"]) for e in log)
        p["share_two_reads"] = max([hg.shared_mutable(vals[x], vals[y])["n"] for x, y in
                                    (("in1", "in2"), ("data1", "data2"), ("res1", "res2"), ("exc1", "exc2"),
                                     ("buf1", "buf2")) if x in vals and y in vals] or [0])
        ro = [[o.key, o.value] for o in pb.recorded_outputs]
        p["recorded_outputs"] = hg.snap(sorted(ro, key=lambda kv: kv[0]))
        p["share_outputs_recording"] = hg.shared_mutable([o.value for o in pb.recorded_outputs], pb.original_recording)
        p["playback_outputs"] = hg.snap(sorted(([o.key, o.value] for o in pb.playback_outputs), key=lambda kv: kv[0]))
        # the played recording holds the keys that were recorded (compared with an independent fetch made before any replay)
        p["recording_keys"] = sorted(pb.original_recording.get_all_keys())
        p["recording_keys_fetched"] = fetched_keys
        p["recorded_duration_type"] = type(pb.recorded_duration).__name__
        p["metadata"] = hg.snap({kk: vv for kk, vv in pb.original_recording.get_metadata().items()
                                 if kk not in (TapeRecorder.DURATION, TapeRecorder.RECORDED_AT)})
        p["duration_ok"] = isinstance(pb.recorded_duration, float) and pb.recorded_duration >= 0
        # share with what earlier replays handed out
        p["share_earlier_plays"] = hg.shared_mutable([vals, ro, pb.original_recording], keep)
        keep.append([vals, ro, pb.original_recording, pb])
        # now mutate everything this replay handed out
        for o in pb.recorded_outputs:
            hg.mutate(o.value, script)
        hg.mutate(pb.original_recording.recording_data, script)
        md = pb.original_recording.get_metadata()
        hg.mutate(md, script)
        md[TapeRecorder.DURATION] = -1.0
        for v in vals.values():
            hg.mutate(v, script)
        out["plays"].append(p)
    return out


# ---------------------------------------------------------------------------------------------
# kind "copy": copy-on-interception

HFORMS = ("result", "pair", "dict", "req", "buf_only", "nested", "fresh")
FORCE_POINTS = ("start", "in_input", "after_input", "after_mutation", "end")


def _fill(buf, v, tag):
    """What an input with an out-parameter does to the caller's buffer."""
    if isinstance(buf, list):
        buf.extend([v, tag])
    elif isinstance(buf, dict):
        buf["filled"] = v
    elif isinstance(buf, set):
        buf.add(tag)
    elif buf is not None:
        setattr(buf, "filled", v)


def _prepared(form, result, buf, req):
    """Recorded form built by the data handler from the result AND from live objects of the call."""
    if form == "result":
        return result
    if form == "pair":
        return (result, buf)
    if form == "dict":
        return {"count": result, "rows": buf}
    if form == "req":
        return {"r": result, "req": req}
    if form == "buf_only":
        return buf
    if form == "nested":
        return [{"deep": [buf, req]}, result]
    return {"r": result, "n": 2}


FAMILY_ROLES = ("base", "grandbase", "mixin", "derived", "sibling", "unrelated")


ENABLE_WAYS = ("ctor", "ctor_pos", "reg_kwargs", "assign_before_reg", "assign_after_reg", "assign_shared", "assign_in_op")


def _own_params(rec, flag, rate, enable):
    """The operation class's own RecordingParameters and its registration, by the way the copy flag gets its value
    (case["enable"]): constructor keyword ("ctor"), constructor positional ("ctor_pos"), keyword arguments of
    TapeRecorder.recording_params ("reg_kwargs"), or ASSIGNED to the attribute of an existing parameters object (constructed
    with the opposite value) - before it is registered ("assign_before_reg"), after it was registered ("assign_after_reg"),
    on one parameters object registered for this and for another class ("assign_shared"), or by the operation itself before
    its first interception ("assign_in_op").  Returns (register(cls), late()): late() is to be called where the late
    assignment belongs ("after_reg" / "in_op"), it does nothing for the other ways."""
    kw = {} if rate is None else {"sampling_rate": rate}
    box = {}

    def assign():
        box["p"].copy_data_on_intercepion = flag
    if enable == "ctor":
        box["p"] = RecordingParameters(copy_data_on_intercepion=flag, **kw)
    elif enable == "ctor_pos":
        box["p"] = RecordingParameters(kw.get("sampling_rate", 1.0), False, False, flag)
    elif enable == "reg_kwargs":
        return (lambda cls: rec.recording_params(copy_data_on_intercepion=flag, **kw)(cls)), (lambda when: None)
    else:
        box["p"] = RecordingParameters(copy_data_on_intercepion=not flag, **kw)
        if enable == "assign_before_reg":
            assign()

    def register(cls):
        rec.recording_params(box["p"])(cls)
        if enable == "assign_shared":
            rec.recording_params(box["p"])(type("SharesParameters", (object,), {}))

    def late(when):
        if (enable, when) in (("assign_after_reg", "after_reg"), ("assign_shared", "after_reg"), ("assign_in_op", "in_op")):
            assign()
    return register, late


def _build_family(rec, fam, register_own, body):
    """The operation class as it sits in a real code base: in a class hierarchy (GrandBase <- Base <- Op(Base, Mixin) <- Derived,
    Sibling(Base), Unrelated), the decorated operation defined in the class itself or inherited from a base ("op_in"), as an
    instance or a class-level operation, and OTHER classes of the hierarchy configured on the SAME recorder with parameters of
    their own.  fam["register"] is the order of the recording_params registrations: [who, parameters] with who = "own" (the
    parameters of the case: own_params) or one of FAMILY_ROLES ({"copy", "rate" (None: default), "skipped", "ignore"}).
    The operation always runs on Op; only Op's own registration says whether copy-on-interception is enabled for it."""
    if fam.get("classlevel"):
        member = classmethod(rec.class_operation()(lambda c: body()))
    else:
        member = rec.operation()(lambda self: body())
    op_in = fam.get("op_in", "own")

    def mk(name, bases, who):
        return type(name, bases, {"execute": member} if op_in == who else {})
    mixin = type("Mixin", (object,), {})
    grandbase = mk("GrandBase", (object,), "grandbase")
    base = mk("Base", (grandbase,), "base")
    own = mk("Op", (base, mixin), "own")
    classes = {"own": own, "base": base, "grandbase": grandbase, "mixin": mixin, "derived": type("Derived", (own,), {}),
               "sibling": type("Sibling", (base,), {}), "unrelated": type("Unrelated", (object,), {})}
    for who, prm in fam["register"]:
        if who == "own":
            register_own(classes[who])
            continue
        kw = dict(copy_data_on_intercepion=bool(prm.get("copy")), skipped=bool(prm.get("skipped")),
                  ignore_enforced_sampling=bool(prm.get("ignore")))
        if prm.get("rate") is not None:
            kw["sampling_rate"] = prm["rate"]
        rec.recording_params(RecordingParameters(**kw))(classes[who])
    return own


def run_copy(case):
    from playback.interception.input_interception import InputInterceptionDataHandler
    cas = InMemoryTapeCassette()
    # sampling configuration of the operation class: the copy-on-interception clause is about every recording that ends
    # up SAVED, whatever made it so (rate 1, a winning draw, or force_sample_recording() at any point of the operation)
    rate = case.get("rate")             # None: the default RecordingParameters sampling rate
    force = case.get("force")           # None | one of FORCE_POINTS: where the operation enforces sampling
    rec = TapeRecorder(cas, random_seed=case.get("rseed"))
    rec.enable_recording()
    script = case["script"]
    g_in, g_out = case["vin"], case["vout"]
    flag = case["copy"]

    def at(point):
        if force == point:
            rec.force_sample_recording()
    form = case.get("hform")            # None: no data handler
    via = case.get("via", "arg")        # how the out-parameter is passed
    static = bool(case.get("static"))
    live = {}
    cap = {}
    held = {}                           # live objects the service keeps working on
    live_saved = []
    orig_save = cas._save_recording

    def spy_save(recording):
        live_saved.append(recording.id)
        # the live recording object, after the operation's later mutations, before it is serialized
        for key in recording.get_all_keys():
            live[key] = recording.get_data_direct(key)
        return orig_save(recording)
    cas._save_recording = spy_save

    def capture(tag, v):
        """At capture time: what a copy of the recorded form taken now would hold."""
        cap[tag] = {"value": v, "now": hg.snap(v)}
        try:
            cap[tag]["copy_now"] = hg.snap(jsonpickle.decode(jsonpickle.encode(v, unpicklable=True)))
        except BaseException as ex:
            cap[tag]["copy_now"] = None
            cap[tag]["copy_err"] = err_name(ex)
        return v

    class Handler(InputInterceptionDataHandler):
        def prepare_input_for_recording(self, interception_key, result, args, kwargs):
            buf = kwargs["into"] if "into" in kwargs else args[1 if static else 2]
            return capture("in", _prepared(form, result, buf, kwargs.get("req")))

        def restore_input_from_recording(self, recorded_data, args, kwargs):
            return recorded_data

    def load_body(n, into, req=None):
        v = hg.build(g_in)[1]
        _fill(into, hg.build(g_in)[1], "F")
        _fill(req, [n], "R")
        held["result"] = v
        if form is None:
            capture("in", v)
        at("in_input")
        return v

    handler = Handler() if form is not None else None

    class Svc(object):
        if static:
            @staticmethod
            @rec.static_intercept_input('load', data_handler=handler)
            def load(n, into, req=None):
                return load_body(n, into, req)
        else:
            @rec.intercept_input('load', data_handler=handler)
            def load(self, n, into, req=None):
                return load_body(n, into, req)

        @rec.intercept_output('store')
        def store(self, payload):
            return capture("res", hg.build(g_out)[1])

    # the way the copy flag of the operation class gets its value (constructor / registration keywords / attribute assignment)
    register_own, late = _own_params(rec, flag, rate, case.get("enable", "ctor"))

    def body():
        late("in_op")
        svc = Svc()
        into = hg.build(case["vbuf"])[1] if "vbuf" in case else []
        req = hg.build(case["vreq"])[1] if "vreq" in case else {"q": [1]}
        held["into"], held["req"] = into, req
        at("start")
        if via == "kwarg":
            a = svc.load(1, into=into, req=req)
        else:
            a = svc.load(1, into, req=req)
        held["returned_is_original"] = (a is held.get("result"))
        at("after_input")
        # the service goes on working, in place, on everything it holds
        hg.mutate(a, script)
        hg.mutate(into, script)
        hg.mutate(req, script)
        at("after_mutation")
        r = svc.store("x")
        cap["res"]["returned_is_original"] = (r is cap["res"]["value"])
        hg.mutate(r, script)
        at("end")
        return 1

    fam = case.get("family")
    if fam is None:
        class Op(object):
            @rec.operation()
            def execute(self):
                return body()
        register_own(Op)
        late("after_reg")
        Op().execute()
    else:
        # the operation class lives in a class hierarchy, and OTHER classes are configured on the same recorder
        Op = _build_family(rec, fam, register_own, body)
        late("after_reg")
        if fam.get("classlevel"):
            Op.execute()
        else:
            Op().execute()
    out = {"copy": flag, "saved": bool(live_saved), "values": []}
    for tag, prefix in (("in", "input: load"), ("res", "output: store #1.result")):
        key = next((k for k in sorted(live) if k.startswith(prefix)), None)
        o = {"tag": tag, "recorded": key is not None and tag in cap}
        if o["recorded"]:
            wrapper = live[key]
            recorded = wrapper.get("value") if isinstance(wrapper, dict) else None
            c = cap[tag]
            if tag == "in":
                service_holds = [held.get("result"), held.get("into"), held.get("req")]
                o["returned_is_original"] = held.get("returned_is_original")
                o["share_recorded_result"] = hg.shared_mutable(recorded, held.get("result"))
                o["share_recorded_args"] = hg.shared_mutable(recorded, [held.get("into"), held.get("req")])
            else:
                service_holds = [c["value"]]
                o["returned_is_original"] = c.get("returned_is_original")
                o["share_recorded_result"] = hg.shared_mutable(recorded, c["value"])
                o["share_recorded_args"] = {"n": 0}
            o["n_mutable"] = len(hg.mutable_nodes(service_holds))
            s = hg.snap(recorded)
            o["recorded_equals_copy_at_capture"] = (s == c["copy_now"])
            o["recorded_equals_value_at_capture"] = (s == c["now"])
            o["recorded_equals_mutated_value"] = (s == hg.snap(c["value"]))
            o["copy_possible"] = c["copy_now"] is not None
            if not o["recorded_equals_copy_at_capture"]:
                o["recorded_snap"] = clip(s)
                o["at_capture"] = clip(c["copy_now"] or "")
        out["values"].append(o)
    return out


# ---------------------------------------------------------------------------------------------
# kind "deep": reads / fetches / injections made at EVERY remaining stack headroom (crash points of the copy)
#
# A read is made by code that sits somewhere in a call stack.  The copy a read has to make needs stack of its own (jsonpickle:
# ~4 frames per nesting level of the value, ~20 for a flat one), so for every value there is a band of headrooms in which
# the copy cannot be completed (RecursionError).  There a read may fail - it must never hand out the stored object graph.
# The band is small (tens to a few hundred frames), so it is ENUMERATED: headroom h = 1, 2, 3, ... until the read has
# succeeded DEEP_SETTLE times in a row.

DEEP_SETTLE = 8
DEEP_CAP = 700


def _stack_depth():
    f, n = sys._getframe(), 0
    while f is not None:
        n += 1
        f = f.f_back
    return n


def _descend(n, action):
    if n <= 0:
        return action()
    return _descend(n - 1, action)


def at_headroom(h, action):
    """Runs action() with about h frames left before the interpreter's recursion limit (stands for the recursive algorithm
    of the calling code that reads at the bottom).  Whatever action raises propagates."""
    return _descend(sys.getrecursionlimit() - _stack_depth() - h - 2, action)


def _attempt(h, action):
    try:
        return "val", at_headroom(h, action)
    except RecursionError:
        return "raise:RecursionError", None
    except Exception as ex:
        return "raise:" + err_name(ex), None


def _runs(seq):
    """[[h_from, h_to, outcome], ..] of a list of (h, outcome)."""
    out = []
    for h, o in seq:
        if out and out[-1][2] == o and out[-1][1] == h - 1:
            out[-1][1] = h
        else:
            out.append([h, h, o])
    return out


def _scan(probe):
    """probe(h) -> outcome text, 'fresh' meaning a complete success, an upper-case text a violation; h = 1.. until
    DEEP_SETTLE successes in a row or the first violation (what follows a violation works on an altered store)."""
    seq, streak, h = [], 0, 0
    while streak < DEEP_SETTLE and h < DEEP_CAP:
        h += 1
        o = probe(h)
        seq.append((h, o))
        if o[:1].isupper():
            break
        streak = streak + 1 if o == "fresh" else 0
    return seq


def _deep_reads(recording, case, out, extra_roots=()):
    """get_data / __getitem__ of every key at every headroom; each returned value is checked against the store by id()-walk,
    then mutated in place, then the key is read again (at ordinary depth)."""
    script = case["script"]
    out["keys"] = []
    for key, _ in case["data"]:
        o = {"key": key}
        stored = recording.get_data_direct(key)
        stored0 = hg.snap(stored)
        try:
            base = hg.snap(recording.get_data(key))
        except BaseException as ex:         # cannot be copied even with the whole stack: C07's matter
            out["keys"].append({"key": key, "skipped": "get_data raised " + err_name(ex)})
            continue
        o["n_mutable"] = len(hg.mutable_nodes(stored))
        for name, read in (("get_data", lambda: recording.get_data(key)), ("getitem", lambda: recording[key])):
            bad = {}

            def probe(h):
                how, v = _attempt(h, read)
                if how != "val":
                    return how
                share = hg.shared_mutable(v, [stored, recording] + list(extra_roots))
                same = hg.snap(v) == base
                hg.mutate(v, script)
                later_ok = True
                try:
                    later = hg.snap(recording.get_data(key))
                    later_ok = later == base
                except BaseException as ex:
                    later, later_ok = "raised " + err_name(ex), False
                now = hg.snap(recording.get_data_direct(key))
                if share["n"] and "share" not in bad:
                    bad["share"] = dict(share, h=h)
                if (not later_ok or now != stored0) and "altered" not in bad:
                    bad["altered"] = {"h": h, "first_read": clip(base), "later_read": clip(later),
                                      "stored_before": clip(stored0), "stored_after": clip(now)}
                if share["n"]:
                    return "SHARES-STORED"
                if not later_ok or now != stored0:
                    return "ALTERS-LATER-READ"
                return "fresh" if same else "fresh-but-different"      # (faithfulness of a deep copy: C07's matter)
            seq = _scan(probe)
            o[name] = {"outcomes": _runs(seq), "returned": sum(1 for _, x in seq if not x.startswith("raise:")),
                       "raised": sum(1 for _, x in seq if x.startswith("raise:")), "bad": bad}
            if bad:
                break                   # the store is altered: nothing further is concluded for this key
        out["keys"].append(o)
    return out


def run_deep(case):
    path = case["path"]
    if path == "rec":
        rec = MemoryRecording("Op/1")
        for key, graph in case["data"]:
            rec.set_data(key, hg.build(graph)[1])
        return _deep_reads(rec, case, {})
    cas, tmp = make_cassette(case["ctype"])
    try:
        if path == "cas":
            return _run_deep_cas(case, cas)
        return _run_deep_play(case, cas)
    finally:
        drop_cassette(cas, tmp)


def _run_deep_cas(case, cas):
    """Reads of a FETCHED recording at every headroom, then fetches themselves at every headroom."""
    rec = cas.create_new_recording("Op")
    for key, graph in case["data"]:
        rec.set_data(key, hg.build(graph)[1])
    rec.add_metadata(hg.build(case["meta"])[1])
    cas.save_recording(rec)
    rid = rec.id
    try:
        first = cas.get_recording(rid)
        base = rec_snapshot(first)
    except BaseException as ex:
        return {"skipped": "first fetch raised " + err_name(ex)}
    out = _deep_reads(cas.get_recording(rid), case, {}, extra_roots=[cas])
    keep, bad = [first, rec], {}

    def probe(h):
        how, f = _attempt(h, lambda: cas.get_recording(rid))
        if how != "val":
            return how
        share = hg.shared_mutable(f, keep + [cas])
        keep.append(f)
        try:
            same = rec_snapshot(f) == base
        except BaseException:
            same = False
        hg.mutate(f.recording_data, case["script"])
        hg.mutate(f.get_metadata(), case["script"])
        f["input: injected later"] = {"value": ["tampered"]}
        later = rec_snapshot(cas.get_recording(rid))
        if share["n"] and "share" not in bad:
            bad["share"] = dict(share, h=h)
        if later != base and "altered" not in bad:
            bad["altered"] = {"h": h, "saved": clip(base, 600), "later": clip(later, 600)}
        if share["n"]:
            return "SHARES"
        if later != base:
            return "ALTERS-LATER-FETCH"
        return "fresh" if same else "fresh-but-different"
    seq = _scan(probe)
    out["fetch"] = {"outcomes": _runs(seq), "returned": sum(1 for _, x in seq if not x.startswith("raise:")),
                    "raised": sum(1 for _, x in seq if x.startswith("raise:")), "bad": bad}
    return out


DEEP_TAGS = ("in", "inh", "data", "res", "exc")


def _run_deep_play(case, cas):
    """A replayed operation whose recursive algorithm asks for its inputs (plain, through a pass-through data handler,
    play_data, an output's result, a recorded exception) at the bottom of its recursion, works on what it gets in place and
    asks again: one replay per headroom."""
    from playback.interception.input_interception import InputInterceptionDataHandler
    rec = TapeRecorder(cas)
    rec.enable_recording()
    script = case["script"]
    g_in, g_out, g_data = case["vin"], case["vout"], case["vdata"]

    class Same(InputInterceptionDataHandler):
        def prepare_input_for_recording(self, interception_key, result, args, kwargs):
            return result

        def restore_input_from_recording(self, recorded_data, args, kwargs):
            return recorded_data

    class Svc(object):
        @rec.intercept_input('load')
        def load(self, n):
            return hg.build(g_in)[1]

        @rec.intercept_input('loadh', data_handler=Same())
        def loadh(self, n):
            return hg.build(g_in)[1]

        @rec.intercept_input('fail')
        def fail(self):
            e = ValueError('boom')
            e.detail = hg.build(g_data)[1]
            raise e

        @rec.intercept_output('store')
        def store(self, payload):
            return hg.build(g_out)[1]

    def fail_value(svc):
        try:
            svc.fail()
        except ValueError as e:
            return e
        return None

    cur = {}

    class Op(object):
        @rec.operation()
        def execute(self):
            svc = Svc()
            reads = (("in", lambda: svc.load(1)), ("inh", lambda: svc.loadh(1)), ("data", lambda: rec.play_data("blob")),
                     ("res", lambda: svc.store("x")), ("exc", lambda: fail_value(svc)))
            if not rec.in_playback_mode:
                svc.load(1)
                svc.loadh(1)
                rec.record_data("blob", hg.build(g_data)[1])
                svc.store("x")
                fail_value(svc)
                return 1
            h = cur["h"]
            got = cur["got"] = {}

            def bottom():
                # the bottom of the recursion: ask for everything, each request guarded by the algorithm's depth guard
                for tag, read in reads:
                    try:
                        got[tag] = ("val", read())
                    except RecursionError:
                        got[tag] = ("raise:RecursionError", None)
                    except Exception as ex:
                        got[tag] = ("raise:" + err_name(ex), None)
            if h is None:
                bottom()
            else:
                try:
                    at_headroom(h, bottom)
                except RecursionError:
                    pass
            # back at ordinary depth, still inside the replay: look at what was handed out, work on it in place, ask again
            cur["share"] = {tag: hg.shared_mutable(v, cur["recording"]) for tag, (how, v) in got.items() if how == "val"}
            cur["snaps"] = {tag: hg.snap(v) for tag, (how, v) in got.items() if how == "val"}
            for tag, (how, v) in got.items():
                if how == "val":
                    hg.mutate(v, script)
                    if tag == "exc" and v is not None:
                        v.tainted = ["x"]
            again = cur["again"] = {}
            for tag, read in reads:
                if tag == "res":
                    continue            # (an output's result is recorded per call ordinal: asked for once per replay)
                try:
                    again[tag] = hg.snap(read())
                except Exception as ex:
                    again[tag] = "raised " + err_name(ex)
            return 1

    Op().execute()
    rec.disable_recording()
    try:
        rid = list(cas.iter_recording_ids("Op"))[0]
        base_rec = rec_snapshot(cas.get_recording(rid))
    except BaseException as ex:
        return {"skipped": "first fetch raised " + err_name(ex)}

    def fn(recording):
        cur["recording"] = recording
        Op().execute()

    def one_play(h):
        cur.clear()
        cur["h"] = h
        pb = rec.play(rid, fn)
        return pb

    try:
        one_play(None)
    except BaseException as ex:
        return {"skipped": "first replay raised " + err_name(ex)}
    base = dict(cur["snaps"])
    if any(base.get(t) != cur["again"].get(t) for t in cur["again"]) or any(s["n"] for s in cur["share"].values()):
        # already at ordinary depth: the ordinary "play" stream's business, reported there
        return {"skipped": "replay at ordinary depth already differs"}
    out = {"tags": {}, "n_plays": 0}
    bad = {}
    per_tag = {t: [] for t in DEEP_TAGS}

    def probe(h):
        try:
            pb = one_play(h)
        except RecursionError:
            for t in DEEP_TAGS:
                per_tag[t].append((h, "raise:RecursionError(play)"))
            return "raise:RecursionError(play)"
        out["n_plays"] += 1
        got = cur.get("got", {})
        after = rec_snapshot(pb.original_recording)
        fetched = rec_snapshot(cas.get_recording(rid))
        all_fresh = True
        for t in DEEP_TAGS:
            how, _ = got.get(t, ("raise:not-reached", None))
            if how != "val":
                o = how
            elif cur["share"][t]["n"]:
                o = "SHARES-RECORDING"
                bad.setdefault("share", dict(cur["share"][t], h=h, tag=t))
            elif t in cur["again"] and cur["again"][t] != base.get(t):
                o = "SECOND-REQUEST-SEES-MUTATION"
                bad.setdefault("second", {"h": h, "tag": t, "recorded": clip(base.get(t) or ""), "second": clip(cur["again"][t])})
            else:
                o = "fresh" if cur["snaps"][t] == base.get(t) else "fresh-but-different"
            per_tag[t].append((h, o))
            all_fresh = all_fresh and o == "fresh"
        if after != base_rec or fetched != base_rec:
            bad.setdefault("recording", {"h": h, "which": "Playback.original_recording" if after != base_rec else "a later fetch",
                                         "before": clip(base_rec, 600), "after": clip(after if after != base_rec else fetched, 600)})
            return "ALTERS-RECORDING"
        return "fresh" if all_fresh else "partial"
    seq = _scan(probe)
    out["plays"] = _runs(seq)
    for t in DEEP_TAGS:
        out["tags"][t] = {"outcomes": _runs(per_tag[t]),
                          "returned": sum(1 for _, x in per_tag[t] if not x.startswith("raise:")),
                          "raised": sum(1 for _, x in per_tag[t] if x.startswith("raise:"))}
    out["bad"] = bad
    return out


KINDS = {"codec": run_codec, "rec": run_rec, "cas": run_cas, "play": run_play, "copy": run_copy, "deep": run_deep}


def run_c11(case):
    return KINDS[case["kind"]](case)


if __name__ == '__main__':
    main({"C11": run_c11})
