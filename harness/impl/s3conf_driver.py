"""C15: histories on several REAL S3TapeCassettes sharing one fake bucket (fake boto3 behind the real
S3BasicFacade) that also holds foreign objects.  After every call: outcome kind, new mutation-log
entries, bucket key set (+ body checksums).  Every save is additionally crash-probed: on a snapshot of
the bucket the fake put_object is made to fail on the n-th mutation of that save (n = 0, 1, 2), then a
FRESH read-only cassette runs lookup (iter_recording_ids) + get_recording + get_recording_metadata for
every known category and cassette prefix of the case.  A context-manager exit (`exit`) leaves the `with` block
normally or, with "raises": "error" / "interrupt", through an exception raised by the body."""
import datetime
import types
import zlib
from fractions import Fraction

import fake_s3
from driver_common import main
from lib.pyvals import to_py

BASE = datetime.datetime(2020, 2, 27, 12, 0, 0)
_n = [0]


def exn_name(ex):
    n = type(ex).__name__
    if isinstance(ex, AssertionError):
        return "AssertionError"
    if n in ("NoSuchRecording", "InjectedCrash"):
        return n
    if isinstance(ex, (zlib.error, ValueError)):      # JSONDecodeError / UnicodeDecodeError are ValueErrors
        return "DecodeError"
    if isinstance(ex, (AttributeError, TypeError)):
        return "ShapeError"
    return "other:" + n


class BodyError(Exception):
    """raised by the body of a `with cassette:` block"""


class BodyInterrupt(BaseException):
    """an interrupt (not an Exception subclass, like KeyboardInterrupt) raised by the body of a `with cassette:` block"""


class FakeUuid(object):
    def __init__(self):
        self.n = 0

    def uuid1(self):
        self.n += 1
        return types.SimpleNamespace(hex='%032x' % self.n)


class SpyRandom(object):
    def __init__(self, inner):
        self.inner = inner
        self.last = None

    def random(self):
        self.last = self.inner.random()
        return self.last

    def getstate(self):
        return self.inner.getstate()

    def setstate(self, s):
        self.inner.setstate(s)


def snapshot(store):
    return [[k, zlib.crc32(v[0]) & 0xffffffff] for k, v in sorted(store.data.items())]


def probe_lookup(s3c, bucket, store, prefixes, categories):
    """lookup + fetch through fresh read-only cassettes; returns (failures, number of mutations they made)."""
    before = len(store.log)
    fails = []
    found = 0
    for p in prefixes:
        fresh = s3c.S3TapeCassette(bucket, key_prefix=p, read_only=True)
        for cat in categories:
            try:
                ids = list(fresh.iter_recording_ids(cat))
            except Exception as ex:
                fails.append([p, cat, None, "lookup", exn_name(ex)])
                continue
            for i in ids:
                found += 1
                try:
                    rec = fresh.get_recording(i)
                    for k in list(rec.get_all_keys()):
                        rec.get_data(k)
                    rec.get_metadata()
                except Exception as ex:
                    fails.append([p, cat, i, "get_recording", exn_name(ex)])
                try:
                    fresh.get_recording_metadata(i)
                except Exception as ex:
                    fails.append([p, cat, i, "get_recording_metadata", exn_name(ex)])
    return fails, len(store.log) - before, found


def run_c15(case):
    s3c = fake_s3.install()
    fu = FakeUuid()
    s3c.uuid = fu
    _n[0] += 1
    bucket = 'c15-%d' % _n[0]
    store = fake_s3.store(bucket)
    fake_s3.CLOCK.set(BASE)
    state = {"ratio": None}

    def calculator(category, size, recording):
        state["seen_category"] = category
        return state["ratio"]

    cassettes = []
    for c in case["cassettes"]:
        kw = dict(key_prefix=c["prefix"], read_only=c["read_only"], transient=c["transient"])
        if c.get("ia") is not None:
            kw["infrequent_access_kb_threshold"] = c["ia"]
        if c.get("calc"):
            kw["sampling_calculator"] = calculator
        cas = s3c.S3TapeCassette(bucket, **kw)
        cas._random = SpyRandom(cas._random)
        cassettes.append(cas)
    prefixes = sorted(set(c["prefix"] for c in case["cassettes"]))
    categories = sorted(set(case.get("categories", [])))
    slots = {}
    out = []
    for op in case["ops"]:
        kind = op["op"]
        o = {"res": "ok"}
        lb = len(store.log)
        try:
            if kind == "raw_put":
                store.data[op["key"]] = (op["body"].encode('utf-8'), None, None)
            elif kind == "raw_del":
                store.data.pop(op["key"], None)
            elif kind in ("create", "mk"):
                if kind == "create":
                    fake_s3.CLOCK.set(BASE + datetime.timedelta(days=op["day"]))
                    rec = cassettes[op["cas"]].create_new_recording(op["cat"])
                else:
                    rec = s3c.MemoryRecording(op["id"])
                o["id"] = rec.id
                for k, v in op.get("data", []):
                    rec.set_data(k, to_py(v))
                rec.add_metadata({k: to_py(v) for k, v in op.get("meta", [])})
                slots[op["slot"]] = rec
            elif kind == "save":
                cas = cassettes[op["cas"]]
                rec = slots.get(op["slot"])
                if rec is None:
                    o["res"] = "no-slot"
                else:
                    state["ratio"] = None if op.get("ratio") is None else op["ratio"][0] / op["ratio"][1]
                    o["closed_before"] = rec._closed
                    if op.get("crash") is None:
                        # crash probes on a snapshot, every mutation boundary of this save
                        o["probe"] = []
                        snap = (dict(store.data), list(store.log), list(store.reads), list(store.lists))
                        rng = cas._random.getstate()
                        for n in range(3):
                            store.crash_after = len(store.log) + n
                            crashed = False
                            try:
                                cas.save_recording(rec)
                            except fake_s3.InjectedCrash:
                                crashed = True
                            except Exception:
                                pass
                            store.crash_after = None
                            muts = len(store.log) - len(snap[1])
                            fails, pm, found = probe_lookup(s3c, bucket, store, prefixes, categories)
                            o["probe"].append({"n": n, "crashed": crashed, "muts": muts, "fails": fails,
                                               "probe_mutations": pm, "found": found})
                            store.data = dict(snap[0])
                            store.log[:] = snap[1]
                            store.reads[:] = snap[2]
                            store.lists[:] = snap[3]
                            rec._closed = o["closed_before"]
                            cas._random.setstate(rng)
                            if not crashed:
                                break
                    cas._random.last = None
                    if op.get("crash") is not None:
                        store.crash_after = len(store.log) + op["crash"]
                    try:
                        cas.save_recording(rec)
                    finally:
                        store.crash_after = None
                        d = cas._random.last
                        fr = None if d is None else Fraction(d)
                        o["draw"] = None if fr is None else [fr.numerator, fr.denominator]
            elif kind == "get":
                rec = cassettes[op["cas"]].get_recording(op["id"])
                list(rec.get_all_keys())
                if op.get("keep") is not None:     # the caller keeps the fetched (open) recording: see "abort"
                    slots[op["keep"]] = rec
            elif kind == "abort":
                # TapeCassette.abort_recording: "done with it, do not save" - on a fresh, a saved, a hand-made or a
                # fetched recording, through any cassette of the case
                rec = slots.get(op["slot"])
                if rec is None:
                    o["res"] = "no-slot"
                else:
                    o["closed_before"] = rec._closed
                    cassettes[op["cas"]].abort_recording(rec)
            elif kind == "get_meta":
                cassettes[op["cas"]].get_recording_metadata(op["id"])
            elif kind == "list":
                o["listed"] = sorted(cassettes[op["cas"]].iter_recording_ids(op["cat"]))
            elif kind == "close":
                cassettes[op["cas"]].close()
            elif kind == "exit":
                how = op.get("raises")
                if how is None:
                    with cassettes[op["cas"]]:
                        pass
                else:
                    # the `with` block is left through an exception raised by its body (an ordinary error, or an
                    # interrupt that is not an Exception); the exception itself is the caller's business
                    exc = BodyError if how == "error" else BodyInterrupt
                    try:
                        with cassettes[op["cas"]]:
                            raise exc("the body of the with block failed")
                    except exc:
                        o["propagated"] = True
                    else:
                        o["propagated"] = False
            else:
                raise ValueError(kind)
        except BaseException as ex:
            o["res"] = exn_name(ex)
            o["msg"] = str(ex)[:120]
        o["log"] = [list(e) for e in store.log[lb:]]
        o["objs"] = snapshot(store)
        out.append(o)
    # final sweep: everything discoverable at the end is fetchable
    fails, pm, found = probe_lookup(s3c, bucket, store, prefixes, categories)
    fake_s3.STORES.pop(bucket, None)
    return {"ops": out, "final_probe": {"fails": fails, "probe_mutations": pm, "found": found}}


if __name__ == '__main__':
    main({"C15": run_c15})
