"""C08 / C13: the REAL `Equalizer` (parent loop, recycle logic, worker loop, `_play_and_compare_recording`) run
single-threaded and deterministically over `fake_mp` (fake queues / event / process / clock / kill substituted as
module attributes of `playback.studio.equalizer`).  Cases with kind == "real" are run on real processes instead
(`equalizer_real.py`).

case = {ids: [int], beh: {str(int): behaviour}, dedicated, rate, timeout, keep, consume: [mode, n]}
  consume: ["full"] | ["close", n] (generator closed after n yields) | ["raise", n] (consumer raises in the loop body
           after n yields and drops the generator) | ["iter_raises", n] (the id iterator raises after n ids)
"""
import gc
import re
import types

import fake_mp
from driver_common import main

import playback.studio.equalizer as eqmod
from playback.studio.equalizer import (Equalizer, CompareExecutionConfig, ComparatorResult, EqualityStatus)

MSG = {'cmp': 'cmp', 'boom-player': 'player', 'boom-extractor': 'extractor', 'boom-comparator': 'comparator',
       'playback process have died': 'died', 'timeout while running recording playback and comparison': 'timeout',
       'boom-unpickle': 'unload', 'boom-put': 'refused'}


class ConsumerError(Exception):
    pass


class IdSourceError(Exception):
    pass


def rid(i):
    return 'r%d' % i


def unrid(s):
    m = re.match(r'^r(\d+)$', s) if isinstance(s, str) else None
    return int(m.group(1)) if m else 'foreign:%r' % (s,)


def tri(x):
    return None if x is None else bool(x)


class RichResult(ComparatorResult):
    """a comparator's own flavour of ComparatorResult (module level: it crosses a real process boundary)"""

    def __init__(self, equality_status, message=None, diff=None, detail=None):
        super(RichResult, self).__init__(equality_status, message, diff)
        self.detail = detail


FOREIGN_STATUS = {'none': None, 'true': True, 'name': 'Equal'}


def shaped_verdict(b, r):
    """what the comparator returns for recording r under a verdict-shape behaviour (lib/eqgen.SHAPE_BEH), else None"""
    if b.startswith('foreign:'):
        return True, FOREIGN_STATUS[b[8:]]
    if not b.startswith('cr:'):
        return False, None
    _, st, m, d, k = b.split(':')
    status = FOREIGN_STATUS[st] if st in FOREIGN_STATUS else EqualityStatus[st]
    message = {'none': None, 'text': 'cmp', 'falsy': {}, 'struct': {'recorded': ['rec', r], 'played': ['play', r]},
               'num': 7}[m]
    diff = {'of': r} if d == '1' else None
    if k == 'sub':
        return True, RichResult(status, message, diff, detail='detail-of-' + r)
    return True, ComparatorResult(status, message, diff)


RENDER = [re.compile(r'^can only concatenate str \(not "\w+"\) to str$'),       # u' - ' + message, message not text
          re.compile(r"^'\w+' object has no attribute 'name'$")]                  # equality_status.name, no enum member


def msg_kind(msg):
    if msg is None:
        return 'none'
    if not isinstance(msg, str):
        return 'struct' if msg else 'falsy'
    if msg in MSG:
        return MSG[msg]
    if any(p.match(msg) for p in RENDER):
        return 'render'
    return 'other:' + msg[:60]


def proj(c):
    """the property's projection of one Comparison: label, verdict (status, message kind, diff, class), attached
    replay, presence of expected / actual, exception flags"""
    st = c.comparator_status
    pb = c.playback
    if pb is None:
        att = None
    else:
        att = unrid(getattr(getattr(pb, 'original_recording', None), 'id', None))
    es = getattr(st, 'equality_status', None)
    diff = getattr(st, 'diff', None)
    if diff is not None:
        diff = unrid(diff.get('of')) if isinstance(diff, dict) and set(diff) == {'of'} else 'other:' + str(diff)[:40]
    if type(st) is ComparatorResult:
        cls = 'plain'
    elif type(st) is RichResult and isinstance(c.recording_id, str) and \
            getattr(st, 'detail', None) == 'detail-of-' + c.recording_id:
        cls = 'sub'
    else:
        cls = 'other:%s:%s' % (type(st).__name__, str(getattr(st, 'detail', None))[:40])
    return [unrid(c.recording_id), es.name if isinstance(es, EqualityStatus) else 'foreign:' + type(es).__name__,
            msg_kind(getattr(st, 'message', None)),
            att, c.expected is not None, c.actual is not None,
            tri(c.expected_is_exception), tri(c.actual_is_exception), diff, cls]


class PB(object):
    def __init__(self, r):
        self.original_recording = types.SimpleNamespace(id=r)
        self.recorded_outputs = [('rec', r)]
        self.playback_outputs = [('play', r)]


def data_for(data, r):
    """the comparison data of recording r: case['data'] maps a recording to the KEYS its data extractor yields
    ('o': of, 'a', 'b'; default 'o'), every value is the recording's own id"""
    spec = (data or {}).get(r, 'o')
    return dict(({'o': 'of'}.get(k, k), r) for k in spec)


def stages(sim, data=None):
    """player, result extractor, comparison data extractor and comparator of a run (behaviours looked up in sim)"""
    def player(r):
        b = sim.beh(r)
        w = sim.worker
        if w is not None:
            w.playing = r
        if b == 'player_raises':
            raise ValueError('boom-player')
        if b in ('exit0', 'exit1'):
            raise SystemExit(int(b[4:]))
        if b in ('hang', 'hang_deaf'):
            if w is not None:
                w.deaf = (b == 'hang_deaf')
            raise fake_mp.WorkerHang()
        return PB(r)

    def extractor(outs):
        kind, r = outs[0]
        if sim.beh(r) == 'extractor_raises':
            raise ValueError('boom-extractor')
        return (kind, r)

    def data_extractor(recording):
        return data_for(data, recording.id)

    def comparator(rec, play, **given):
        r = rec[1]
        b = sim.beh(r)
        # the verdict depends on the comparison data: it must be exactly what the extractor gave for THIS recording
        if given != data_for(data, r) or play[1] != r:
            return ComparatorResult(EqualityStatus.Failed, 'mixed-up-inputs')
        if b == 'comparator_raises':
            raise ValueError('boom-comparator')
        if b.startswith('bare:'):
            return EqualityStatus[b[5:]]
        shaped, verdict = shaped_verdict(b, r)
        if shaped:
            return verdict
        if b == 'different':
            return ComparatorResult(EqualityStatus.Different, 'cmp')
        return ComparatorResult(EqualityStatus.Equal, 'cmp')

    return player, extractor, data_extractor, comparator


def run_once(ids, beh, dedicated, rate, timeout, keep, consume, data=None):
    sim = fake_mp.Sim(dict((rid(int(k)), v) for k, v in beh.items()))
    restore = fake_mp.install(eqmod, sim)
    try:
        player, extractor, data_extractor, comparator = stages(
            sim, dict((rid(int(k)), v) for k, v in (data or {}).items()))

        mode = consume[0]
        n = consume[1] if len(consume) > 1 else None

        def id_source():
            for k, i in enumerate(ids):
                if mode == 'iter_raises' and k == n:
                    raise IdSourceError()
                yield rid(i)
            if mode == 'iter_raises' and n >= len(ids):
                raise IdSourceError()

        eq = Equalizer(id_source(), player, extractor, comparator, comparison_data_extractor=data_extractor,
                       compare_execution_config=CompareExecutionConfig(
                           keep_results_in_comparison=keep, compare_in_dedicated_process=dedicated,
                           compare_process_recycle_rate=rate, compare_process_timeout=timeout))

        def extra():
            ev = getattr(eq, '_terminate_process', None)
            tq = getattr(eq, '_compare_tasks', None)
            rq = getattr(eq, '_compare_results', None)
            return dict(term=bool(ev.flag) if hasattr(ev, 'flag') else None,
                        left=[len(getattr(tq, 'items', [])), len(getattr(rq, 'items', []))],
                        lock=bool(getattr(tq, 'poisoned', False)))

        _snap = sim.snapshot
        sim.snapshot = lambda: dict(_snap(), **extra())
        out = []
        outcome = 'completed'

        def consume_in_loop():
            k = 0
            if mode == 'raise' and n == 0:
                eq.run_comparison()      # generator created and dropped before the first next()
                raise ConsumerError()
            for c in eq.run_comparison():
                out.append(proj(c))
                k += 1
                if mode == 'raise' and k == n:
                    raise ConsumerError()

        try:
            if mode == 'close':
                gen = eq.run_comparison()
                k = 0
                while k < n:
                    try:
                        out.append(proj(next(gen)))
                    except StopIteration:
                        break
                    k += 1
                gen.close()
                outcome = 'closed'
                del gen
            else:
                try:
                    consume_in_loop()
                except ConsumerError:
                    outcome = 'consumer-raised'
                except IdSourceError:
                    outcome = 'iter-raised'
        except fake_mp.SimDeadlock as ex:
            outcome = 'deadlock'
            sim.why = sim.why or str(ex)
        except SystemExit:
            outcome = 'abort-exit'
        except fake_mp.WorkerHang:
            outcome = 'blocks'
        except Exception as ex:      # pylint: disable=broad-except
            # something left run_comparison that is neither the consumer's nor the id source's: the run is over,
            # the remaining recordings get nothing
            outcome = 'escaped:' + type(ex).__name__
            sim.why = sim.why or str(ex)[:200]
        gc.collect()    # a dropped, suspended generator is closed by its finaliser (runs the finally block)
        if sim.frozen is not None:
            # the parent blocked for ever inside a finally block that ran in the generator's finaliser (the
            # interpreter reports and drops what a finaliser raises)
            outcome = 'deadlock'
            sim.why = sim.why or 'in the finally block of the dropped generator'
        if outcome == 'deadlock' and sim.frozen is not None:
            before = sim.frozen
            after = before
        else:
            before = sim.snapshot()
            sim.settle()
            after = sim.snapshot()
        workers = [[o, [unrid(x) for x in served], s0, s1]
                   for (o, served, s0), (_, _, s1) in zip(before['workers'], after['workers'])]
        return dict(cmps=out, outcome=outcome, polls=before['polls'], workers=workers, events=after['events'],
                    left=before['left'], lock=before['lock'], term=before['term'], clock=before['clock'], max_live=after['max_live'],
                    why=sim.why)
    finally:
        restore()


class _Tape(object):
    """what PlaybackStudio needs of a tape recorder: the category of a recording id and `play`"""

    def __init__(self, category_of, player):
        self.tape_cassette = types.SimpleNamespace(extract_recording_category=lambda r: category_of[r])
        self._player = player

    def play(self, recording_id, playback_function):
        return self._player(recording_id)


class _Run(object):
    """one comparison run of a multi-run case, advanced one step at a time"""

    def __init__(self, k, spec):
        self.k = k
        self.ids = spec['ids']
        c = spec.get('consume', ['full'])
        self.mode, self.n = c[0], (c[1] if len(c) > 1 else None)
        self.gen = self.eq = None
        self.out, self.yields = [], 0
        self.done, self.outcome = False, None
        self.before = self.after = None
        self.ended_at_round = None

    def id_source(self):
        for k, i in enumerate(self.ids):
            if self.mode == 'iter_raises' and k == self.n:
                raise IdSourceError()
            yield rid(i)
        if self.mode == 'iter_raises' and self.n >= len(self.ids):
            raise IdSourceError()

    def end(self, outcome):
        self.done, self.outcome = True, outcome
        self.gen = None
        gc.collect()     # a dropped, suspended generator is closed by its finaliser (runs the finally block)

    def step(self):
        if self.mode == 'raise' and self.n == 0:
            return self.end('consumer-raised')      # generator created and dropped before the first next()
        if self.mode == 'close' and self.yields >= self.n:
            self.gen.close()
            return self.end('closed')
        try:
            self.out.append(proj(next(self.gen)))
        except StopIteration:
            return self.end('closed' if self.mode == 'close' else 'completed')
        except IdSourceError:
            return self.end('iter-raised')
        self.yields += 1
        if self.mode == 'raise' and self.yields == self.n:
            return self.end('consumer-raised')


def run_multi(case):
    """several comparison runs alive in ONE (simulated) process: equalizers built directly or by one PlaybackStudio
    (one generator per category, as `PlaybackStudio.play()` returns them), advanced in the order of case['schedule']
    (run indices; what is left when the schedule ends is finished run after run).  Observed per run, in the shape of
    the single-run observables, with worker ordinals local to the run."""
    specs = case['runs']
    beh, data = {}, {}
    for sp in specs:
        beh.update((rid(int(k)), v) for k, v in sp['beh'].items())
        data.update((rid(int(k)), v) for k, v in (sp.get('data') or {}).items())
    sim = fake_mp.Sim(beh)
    sim.several_runs = True
    restore = fake_mp.install(eqmod, sim)
    try:
        player, extractor, data_extractor, comparator = stages(sim, data)
        cfg = CompareExecutionConfig(
            keep_results_in_comparison=case['keep'], compare_in_dedicated_process=case['dedicated'],
            compare_process_recycle_rate=case['rate'], compare_process_timeout=case['timeout'])
        runs = [_Run(k, sp) for k, sp in enumerate(specs)]
        if case.get('via') == 'studio':
            from playback.studio.studio import PlaybackStudio
            category_of = dict((rid(i), 'c%02d' % r.k) for r in runs for i in r.ids)
            tuning = types.SimpleNamespace(playback_function=None, result_extractor=extractor, comparator=comparator,
                                           comparison_data_extractor=data_extractor)
            tuner = types.SimpleNamespace(create_category_tuning=lambda category: tuning)
            studio = PlaybackStudio([], tuner, _Tape(category_of, player),
                                    recording_ids=[rid(i) for r in runs for i in r.ids], compare_execution_config=cfg)
            del cfg      # the studio was given the configuration: nobody else holds on to it
            gens = studio.play()
            for r in runs:
                r.gen = gens.get('c%02d' % r.k)
                frame = getattr(r.gen, 'gi_frame', None)
                r.eq = frame.f_locals.get('self') if frame is not None else None
            del gens, frame      # the runs hold the only references: dropping one finalises the generator
        else:
            for r in runs:
                r.eq = Equalizer(r.id_source(), player, extractor, comparator, comparison_data_extractor=data_extractor,
                                 compare_execution_config=cfg)
                r.gen = r.eq.run_comparison()
        for r in runs:
            c = getattr(r.eq, 'compare_execution_config', None)
            r.cfg_seen = None if c is None else [getattr(c, 'keep_results_in_comparison', None),
                                                 getattr(c, 'compare_in_dedicated_process', None),
                                                 getattr(c, 'compare_process_recycle_rate', None),
                                                 getattr(c, 'compare_process_timeout', None)]

        def mine(r):
            return [p for p in sim.procs if p.owner is r.eq]

        def states(r):
            return [p.state_name() for p in mine(r)]

        def snapshot(r):
            ev = getattr(r.eq, '_terminate_process', None)
            tq = getattr(r.eq, '_compare_tasks', None)
            rq = getattr(r.eq, '_compare_results', None)
            return dict(states=states(r), term=bool(ev.flag) if hasattr(ev, 'flag') else None,
                        left=[len(getattr(tq, 'items', [])), len(getattr(rq, 'items', []))],
                        lock=bool(getattr(tq, 'poisoned', False)), round=len(sim.polls_rounds))

        # a "round" = every live worker of the process had a turn (the parent blocked in a get)
        sim.polls_rounds = []
        _turn_all = sim.turn_all

        def turn_all():
            _turn_all()
            sim.polls_rounds.append(1)
        sim.turn_all = turn_all

        stuck = None

        def advance(r):
            r.step()
            if r.done:
                r.before = snapshot(r)
            # a run that has ended: what its workers are once they all had their next poll
            for q in runs:
                if q.done and q.after is None and q is not r and len(sim.polls_rounds) > q.before['round']:
                    q.after = states(q)

        try:
            order = [runs[k] for k in case.get('schedule', []) if k < len(runs)] + \
                    [r for r in runs for _ in range(len(r.ids) + 2)]
            for r in order:
                if r.gen is None and not r.done:
                    r.end('no-generator')
                    r.before = snapshot(r)
                if not r.done:
                    stuck = r
                    advance(r)
                    if sim.frozen is not None:      # blocked for ever inside the finaliser of a dropped generator
                        sim.why = sim.why or 'in the finally block of the dropped generator'
                        r.outcome = 'deadlock'
                        break
                    stuck = None
        except fake_mp.SimDeadlock as ex:
            sim.why = sim.why or str(ex)
        except (SystemExit, fake_mp.WorkerHang, Exception) as ex:      # pylint: disable=broad-except
            stuck.outcome = 'abort-exit' if isinstance(ex, SystemExit) else \
                'blocks' if isinstance(ex, fake_mp.WorkerHang) else 'escaped:' + type(ex).__name__
            sim.why = sim.why or str(ex)[:200]
        for r in runs:
            r.gen = None
        gc.collect()
        if sim.frozen is not None and stuck is None:
            stuck = [r for r in runs if not r.done or r.before is None][:1]
            stuck = stuck[0] if stuck else runs[-1]
        if stuck is not None:
            stuck.outcome = stuck.outcome or 'deadlock'
            for r in runs:
                if r.before is None:
                    r.before = snapshot(r)
                    r.outcome = r.outcome or 'not-finished'
        else:
            sim.settle()
        final = sim.snapshot()
        out = []
        for r in runs:
            procs = mine(r)
            local = dict((p.ordinal, j) for j, p in enumerate(procs))
            after = r.after if (r.after is not None and len(r.after) == len(procs)) else states(r)
            s0 = r.before['states'] + ['unborn'] * len(procs)
            workers = [[j, [unrid(x) for x in p.served], s0[j], after[j]] for j, p in enumerate(procs)]
            own = set(rid(i) for i in r.ids)
            out.append(dict(cmps=r.out, outcome=r.outcome, workers=workers,
                            polls=[n for n, x in zip(final['polls'], sim.poll_ids) if x in own],
                            events=[[e[0], local[e[1]]] for e in final['events'] if e[1] in local],
                            left=r.before['left'], lock=r.before['lock'], term=r.before['term'],
                            max_live=sim.max_live_by_owner.get(id(r.eq), 0) if r.eq is not None else 0,
                            cfg_seen=r.cfg_seen, still_alive=[j for j, p in enumerate(procs) if p.is_alive_()]))
        obs = dict(runs=out, why=sim.why, max_live=final['max_live'])
    finally:
        restore()
    # every run alone (same configuration, same consumption)
    obs['alone'] = []
    for sp in specs:
        o = run_once(sp['ids'], sp['beh'], case['dedicated'], case['rate'], case['timeout'], case['keep'],
                     consume=sp.get('consume', ['full']), data=sp.get('data'))
        obs['alone'].append(dict((k, o[k]) for k in ALONE_KEYS))
    return obs


ALONE_KEYS = ['cmps', 'outcome', 'workers', 'polls', 'events', 'left', 'lock', 'term', 'max_live']

_alone = {}


class CaseWatchdog(BaseException):
    """the simulated case is still running after CASE_CPU seconds of processor time / CASE_WALL seconds of wall time
    (a simulated run takes milliseconds)"""


CASE_CPU = 20.0       # processor time of this process (ITIMER_PROF): a loop that spins; independent of the machine's load
CASE_WALL = 300.0     # wall time (ITIMER_REAL): something that blocks in a real system call


def run_case(case):
    """no case may hang the check, whatever the code under test does: real-process scripts carry their own SIGALRM
    watchdog, every simulated case runs under these two"""
    if case.get('kind') == 'real':
        import equalizer_real
        return equalizer_real.run_case(case)
    import signal
    fired = []

    def on_alarm(signum, frame):
        fired.append('%d s of processor time' % CASE_CPU if signum == signal.SIGPROF else '%d s of wall time' % CASE_WALL)
        raise CaseWatchdog()
    old = [signal.signal(signal.SIGALRM, on_alarm), signal.signal(signal.SIGPROF, on_alarm)]
    signal.setitimer(signal.ITIMER_REAL, CASE_WALL, 1.0)
    signal.setitimer(signal.ITIMER_PROF, CASE_CPU, 1.0)
    try:
        return run_case_(case)
    except CaseWatchdog:
        return {'watchdog': 'the simulated run did not end within %s: parent or worker loops for ever without blocking '
                            'in a multiprocessing call of the simulator' % fired[0]}
    finally:
        signal.setitimer(signal.ITIMER_REAL, 0)
        signal.setitimer(signal.ITIMER_PROF, 0)
        signal.signal(signal.SIGALRM, old[0])
        signal.signal(signal.SIGPROF, old[1])
        gc.collect()


def run_case_(case):
    if case.get('kind') == 'multi':
        return run_multi(case)
    ids, beh = case['ids'], case['beh']
    data = case.get('data') or {}
    cfg = (case['dedicated'], case['rate'], case['timeout'], case['keep'])
    obs = run_once(ids, beh, *cfg, consume=case.get('consume', ['full']), data=data)
    # every recording played alone (same mode and configuration), and the whole sequence in the other mode
    alone = {}
    for i in sorted(set(ids)):
        key = (i, beh.get(str(i), 'equal'), data.get(str(i), 'o')) + cfg
        if key not in _alone:
            o = run_once([i], {str(i): beh.get(str(i), 'equal')}, *cfg, consume=['full'],
                         data={str(i): data.get(str(i), 'o')})
            _alone[key] = [o['cmps'], o['outcome']]
        alone[str(i)] = _alone[key]
    obs['alone'] = alone
    o = run_once(ids, beh, not case['dedicated'], case['rate'], case['timeout'], case['keep'], consume=['full'], data=data)
    obs['other_mode'] = [o['cmps'], o['outcome']]
    return obs


if __name__ == '__main__':
    main({"C08": run_case, "C13": run_case})
