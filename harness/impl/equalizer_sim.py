"""C08 / C13: the REAL `Equalizer` (parent loop, recycle logic, worker loop, `_play_and_compare_recording`) run
single-threaded and deterministically over `fake_mp` (fake queues / event / process / clock / kill substituted as
module attributes of `playback.studio.equalizer`).  Cases with kind == "real" are run on real processes instead
(`equalizer_real.py`).

case = {ids: [int], beh: {str(int): behaviour}, dedicated, rate, timeout, keep, consume: [mode, n]}
  consume: ["full"] | ["close", n] (generator closed after n yields) | ["raise", n] (consumer raises in the loop body
           after n yields and drops the generator) | ["iter_raises", n] (the id iterator raises after n ids)
"""
import gc
import re
import types

import fake_mp
from driver_common import main

import playback.studio.equalizer as eqmod
from playback.studio.equalizer import (Equalizer, CompareExecutionConfig, ComparatorResult, EqualityStatus)

MSG = {'cmp': 'cmp', 'boom-player': 'player', 'boom-extractor': 'extractor', 'boom-comparator': 'comparator',
       'playback process have died': 'died', 'timeout while running recording playback and comparison': 'timeout',
       'boom-unpickle': 'unload', 'boom-put': 'refused'}


class ConsumerError(Exception):
    pass


class IdSourceError(Exception):
    pass


def rid(i):
    return 'r%d' % i


def unrid(s):
    m = re.match(r'^r(\d+)$', s) if isinstance(s, str) else None
    return int(m.group(1)) if m else 'foreign:%r' % (s,)


def tri(x):
    return None if x is None else bool(x)


class RichResult(ComparatorResult):
    """a comparator's own flavour of ComparatorResult (module level: it crosses a real process boundary)"""

    def __init__(self, equality_status, message=None, diff=None, detail=None):
        super(RichResult, self).__init__(equality_status, message, diff)
        self.detail = detail


FOREIGN_STATUS = {'none': None, 'true': True, 'name': 'Equal'}


def shaped_verdict(b, r):
    """what the comparator returns for recording r under a verdict-shape behaviour (lib/eqgen.SHAPE_BEH), else None"""
    if b.startswith('foreign:'):
        return True, FOREIGN_STATUS[b[8:]]
    if not b.startswith('cr:'):
        return False, None
    _, st, m, d, k = b.split(':')
    status = FOREIGN_STATUS[st] if st in FOREIGN_STATUS else EqualityStatus[st]
    message = {'none': None, 'text': 'cmp', 'falsy': {}, 'struct': {'recorded': ['rec', r], 'played': ['play', r]},
               'num': 7}[m]
    diff = {'of': r} if d == '1' else None
    if k == 'sub':
        return True, RichResult(status, message, diff, detail='detail-of-' + r)
    return True, ComparatorResult(status, message, diff)


RENDER = [re.compile(r'^can only concatenate str \(not "\w+"\) to str$'),       # u' - ' + message, message not text
          re.compile(r"^'\w+' object has no attribute 'name'$")]                  # equality_status.name, no enum member


def msg_kind(msg):
    if msg is None:
        return 'none'
    if not isinstance(msg, str):
        return 'struct' if msg else 'falsy'
    if msg in MSG:
        return MSG[msg]
    if any(p.match(msg) for p in RENDER):
        return 'render'
    return 'other:' + msg[:60]


def proj(c):
    """the property's projection of one Comparison: label, verdict (status, message kind, diff, class), attached
    replay, presence of expected / actual, exception flags"""
    st = c.comparator_status
    pb = c.playback
    if pb is None:
        att = None
    else:
        att = unrid(getattr(getattr(pb, 'original_recording', None), 'id', None))
    es = getattr(st, 'equality_status', None)
    diff = getattr(st, 'diff', None)
    if diff is not None:
        diff = unrid(diff.get('of')) if isinstance(diff, dict) and set(diff) == {'of'} else 'other:' + str(diff)[:40]
    if type(st) is ComparatorResult:
        cls = 'plain'
    elif type(st) is RichResult and isinstance(c.recording_id, str) and \
            getattr(st, 'detail', None) == 'detail-of-' + c.recording_id:
        cls = 'sub'
    else:
        cls = 'other:%s:%s' % (type(st).__name__, str(getattr(st, 'detail', None))[:40])
    return [unrid(c.recording_id), es.name if isinstance(es, EqualityStatus) else 'foreign:' + type(es).__name__,
            msg_kind(getattr(st, 'message', None)),
            att, c.expected is not None, c.actual is not None,
            tri(c.expected_is_exception), tri(c.actual_is_exception), diff, cls]


class PB(object):
    def __init__(self, r):
        self.original_recording = types.SimpleNamespace(id=r)
        self.recorded_outputs = [('rec', r)]
        self.playback_outputs = [('play', r)]


def run_once(ids, beh, dedicated, rate, timeout, keep, consume):
    sim = fake_mp.Sim(dict((rid(int(k)), v) for k, v in beh.items()))
    restore = fake_mp.install(eqmod, sim)
    try:
        def player(r):
            b = sim.beh(r)
            w = sim.worker
            if w is not None:
                w.playing = r
            if b == 'player_raises':
                raise ValueError('boom-player')
            if b in ('exit0', 'exit1'):
                raise SystemExit(int(b[4:]))
            if b in ('hang', 'hang_deaf'):
                if w is not None:
                    w.deaf = (b == 'hang_deaf')
                raise fake_mp.WorkerHang()
            return PB(r)

        def extractor(outs):
            kind, r = outs[0]
            if sim.beh(r) == 'extractor_raises':
                raise ValueError('boom-extractor')
            return (kind, r)

        def data_extractor(recording):
            return {'of': recording.id}

        def comparator(rec, play, of=None):
            r = rec[1]
            b = sim.beh(r)
            if of != r or play[1] != r:
                return ComparatorResult(EqualityStatus.Failed, 'mixed-up-inputs')
            if b == 'comparator_raises':
                raise ValueError('boom-comparator')
            if b.startswith('bare:'):
                return EqualityStatus[b[5:]]
            shaped, verdict = shaped_verdict(b, r)
            if shaped:
                return verdict
            if b == 'different':
                return ComparatorResult(EqualityStatus.Different, 'cmp')
            return ComparatorResult(EqualityStatus.Equal, 'cmp')

        mode = consume[0]
        n = consume[1] if len(consume) > 1 else None

        def id_source():
            for k, i in enumerate(ids):
                if mode == 'iter_raises' and k == n:
                    raise IdSourceError()
                yield rid(i)
            if mode == 'iter_raises' and n >= len(ids):
                raise IdSourceError()

        eq = Equalizer(id_source(), player, extractor, comparator, comparison_data_extractor=data_extractor,
                       compare_execution_config=CompareExecutionConfig(
                           keep_results_in_comparison=keep, compare_in_dedicated_process=dedicated,
                           compare_process_recycle_rate=rate, compare_process_timeout=timeout))

        def extra():
            ev = getattr(eq, '_terminate_process', None)
            tq = getattr(eq, '_compare_tasks', None)
            rq = getattr(eq, '_compare_results', None)
            return dict(term=bool(ev.flag) if hasattr(ev, 'flag') else None,
                        left=[len(getattr(tq, 'items', [])), len(getattr(rq, 'items', []))],
                        lock=bool(getattr(tq, 'poisoned', False)))

        _snap = sim.snapshot
        sim.snapshot = lambda: dict(_snap(), **extra())
        out = []
        outcome = 'completed'

        def consume_in_loop():
            k = 0
            if mode == 'raise' and n == 0:
                eq.run_comparison()      # generator created and dropped before the first next()
                raise ConsumerError()
            for c in eq.run_comparison():
                out.append(proj(c))
                k += 1
                if mode == 'raise' and k == n:
                    raise ConsumerError()

        try:
            if mode == 'close':
                gen = eq.run_comparison()
                k = 0
                while k < n:
                    try:
                        out.append(proj(next(gen)))
                    except StopIteration:
                        break
                    k += 1
                gen.close()
                outcome = 'closed'
                del gen
            else:
                try:
                    consume_in_loop()
                except ConsumerError:
                    outcome = 'consumer-raised'
                except IdSourceError:
                    outcome = 'iter-raised'
        except fake_mp.SimDeadlock as ex:
            outcome = 'deadlock'
            sim.why = sim.why or str(ex)
        except SystemExit:
            outcome = 'abort-exit'
        except fake_mp.WorkerHang:
            outcome = 'blocks'
        except Exception as ex:      # pylint: disable=broad-except
            # something left run_comparison that is neither the consumer's nor the id source's: the run is over,
            # the remaining recordings get nothing
            outcome = 'escaped:' + type(ex).__name__
            sim.why = sim.why or str(ex)[:200]
        gc.collect()    # a dropped, suspended generator is closed by its finaliser (runs the finally block)
        if sim.frozen is not None:
            # the parent blocked for ever inside a finally block that ran in the generator's finaliser (the
            # interpreter reports and drops what a finaliser raises)
            outcome = 'deadlock'
            sim.why = sim.why or 'in the finally block of the dropped generator'
        if outcome == 'deadlock' and sim.frozen is not None:
            before = sim.frozen
            after = before
        else:
            before = sim.snapshot()
            sim.settle()
            after = sim.snapshot()
        workers = [[o, [unrid(x) for x in served], s0, s1]
                   for (o, served, s0), (_, _, s1) in zip(before['workers'], after['workers'])]
        return dict(cmps=out, outcome=outcome, polls=before['polls'], workers=workers, events=after['events'],
                    left=before['left'], lock=before['lock'], term=before['term'], clock=before['clock'], max_live=after['max_live'],
                    why=sim.why)
    finally:
        restore()


_alone = {}


def run_case(case):
    if case.get('kind') == 'real':
        import equalizer_real
        return equalizer_real.run_case(case)
    ids, beh = case['ids'], case['beh']
    cfg = (case['dedicated'], case['rate'], case['timeout'], case['keep'])
    obs = run_once(ids, beh, *cfg, consume=case.get('consume', ['full']))
    # every recording played alone (same mode and configuration), and the whole sequence in the other mode
    alone = {}
    for i in sorted(set(ids)):
        key = (i, beh.get(str(i), 'equal')) + cfg
        if key not in _alone:
            o = run_once([i], {str(i): beh.get(str(i), 'equal')}, *cfg, consume=['full'])
            _alone[key] = [o['cmps'], o['outcome']]
        alone[str(i)] = _alone[key]
    obs['alone'] = alone
    o = run_once(ids, beh, not case['dedicated'], case['rate'], case['timeout'], case['keep'], consume=['full'])
    obs['other_mode'] = [o['cmps'], o['outcome']]
    return obs


if __name__ == '__main__':
    main({"C08": run_case, "C13": run_case})
