"""C04 shape probes on the REAL decorators (implementation side only; the program DSL of the model has neither lazy
values nor call shapes):

 * lazy / one-shot results: an intercepted input or output returns a generator, an iterator, an open file-like object, a
   lock - the caller must get THE object the wrapped function returned, untouched (a generator not advanced, nothing
   consumed), with recording enabled (whatever the recorder manages to store of it) and disabled;
 * call shapes of operations and intercepted functions: no positional argument, keyword-only, `self` passed by keyword, an
   unhashable first argument of a class operation, a function used as an operation - with recording DISABLED every shape
   behaves exactly as the undecorated function (same result / same exception type, body executed once with the same
   arguments, cassette untouched).
Each probe runs the decorated and the undecorated twin and reports whether they agree."""
import io
import threading

from driver_common import main
from playback.tape_recorder import TapeRecorder
from playback.tape_cassettes.in_memory.in_memory_tape_cassette import InMemoryTapeCassette


class Spy(InMemoryTapeCassette):
    def __init__(self):
        super(Spy, self).__init__()
        self.calls = []

    def create_new_recording(self, category):
        self.calls.append("create")
        return super(Spy, self).create_new_recording(category)

    def save_recording(self, recording):
        self.calls.append("save")
        return super(Spy, self).save_recording(recording)

    def abort_recording(self, recording=None):
        self.calls.append("abort")
        return super(Spy, self).abort_recording(recording)

    def get_recording(self, recording_id):
        self.calls.append("get")
        return super(Spy, self).get_recording(recording_id)


def _outcome(fn):
    try:
        return ("val", fn())
    except Exception as ex:          # noqa
        return ("exn", type(ex).__name__)


LAZY = ["generator", "iterator", "filelike", "lock", "generator-unbounded"]


def make_lazy(kind, journal):
    if kind in ("generator", "generator-unbounded"):
        def gen():
            i = 0
            while kind == "generator-unbounded" or i < 3:
                if i > 50:
                    journal.append("runaway")
                    return
                journal.append("yield %d" % i)
                yield i
                i += 1
        return gen()
    if kind == "iterator":
        return iter([1, 2, 3])
    if kind == "filelike":
        return io.StringIO(u"abc")
    return threading.Lock()


def untouched(kind, obj, journal):
    if kind.startswith("generator"):
        return not [j for j in journal if j.startswith("yield") or j == "runaway"] and next(obj) == 0
    if kind == "iterator":
        return list(obj) == [1, 2, 3]
    if kind == "filelike":
        return obj.read() == u"abc"
    return obj.acquire(False)


def probe_lazy(case):
    kind, enabled, site = case["value"], case["enabled"], case["site"]
    spy = Spy()
    rec = TapeRecorder(spy)
    if enabled:
        rec.enable_recording()
    journal = []
    made = []

    def raw(x):
        journal.append("body")
        o = make_lazy(kind, journal)
        made.append(o)
        return o
    deco = rec.static_intercept_input("lazy_in") if site == "in" else rec.static_intercept_output("lazy_out")
    fn = deco(raw)
    got = {}

    class Op(object):
        @rec.operation()
        def execute(self):
            journal.append("op")
            r = fn(1)
            got["same"] = bool(made) and r is made[0]
            got["untouched"] = untouched(kind, r, journal)
            return 7
    o = _outcome(lambda: Op().execute())
    return {"outcome": [o[0], o[1] if o[0] == "exn" else (o[1] == 7)], "same_object": got.get("same"),
            "untouched": got.get("untouched"), "bodies": journal.count("body"), "runaway": "runaway" in journal}


SHAPES = ["function-no-args", "function-kwargs-only", "method-self-by-keyword", "class-op-unhashable-first",
          "class-op-no-args", "method-plain", "input-no-args", "output-kwargs-only"]


def probe_shape(case):
    shape = case["shape"]
    spy = Spy()
    rec = TapeRecorder(spy)          # recording DISABLED
    seen = []

    def twin_and_decorated():
        if shape in ("function-no-args", "function-kwargs-only"):
            def handle(event=None):
                seen.append(("handle", event))
                return ("ok", event)
            d = rec.operation()(handle)
            call = (lambda f: f()) if shape == "function-no-args" else (lambda f: f(event=5))
            return (lambda: call(handle)), (lambda: call(d))
        if shape in ("method-self-by-keyword", "method-plain"):
            class Svc(object):
                def raw(self, x=1):
                    seen.append(("raw", x))
                    return x + 1
            Svc.deco = rec.operation()(Svc.raw)
            s = Svc()
            if shape == "method-plain":
                return (lambda: Svc.raw(s, 2)), (lambda: Svc.deco(s, 2))
            return (lambda: Svc.raw(self=s, x=2)), (lambda: Svc.deco(self=s, x=2))
        if shape in ("class-op-unhashable-first", "class-op-no-args"):
            def cop(cls=None, x=1):
                seen.append(("cop", repr(cls), x))
                return x * 2
            d = rec.class_operation()(cop)
            if shape == "class-op-no-args":
                return (lambda: cop()), (lambda: d())
            return (lambda: cop([1, 2], 3)), (lambda: d([1, 2], 3))
        if shape == "input-no-args":
            def f():
                seen.append(("f",))
                return 4
            d = rec.static_intercept_input("shape_in")(f)
            return f, d
        def g(a=1, b=2):
            seen.append(("g", a, b))
            return a - b
        d = rec.static_intercept_output("shape_out")(g)
        return (lambda: g(b=5)), (lambda: d(b=5))
    twin, deco = twin_and_decorated()
    a = _outcome(twin)
    seen_twin = list(seen)
    del seen[:]
    b = _outcome(deco)
    return {"same_outcome": a == b, "twin": [a[0], repr(a[1])], "decorated": [b[0], repr(b[1])],
            "same_bodies": seen_twin == seen, "bodies": len(seen), "cassette": list(spy.calls)}


WATCHDOG_S = 4.0


def probe_loghook(case):
    """The service has a logging hook (a filter on the recorder's logger / a handler / a formatter, as used for log
    correlation) that reads one of the recorder's public read-only properties for every record, the recorder's logger is at
    INFO or DEBUG, and the operation uses the recorder's API (forced sampling from the operation / from an intercepted body,
    discard, plain interceptions).  The decorated operation must behave as the undecorated one - in particular it must
    RETURN: it runs on a worker thread under a watchdog, a run that does not end within WATCHDOG_S is reported as hung."""
    import logging
    from playback.tape_recorder import RecordingParameters
    spy = Spy()
    rec = TapeRecorder(spy)
    rec.enable_recording()
    action = case["action"]
    bodies = []

    def read():
        getattr(rec, case["reads"])

    class F(logging.Filter):
        def filter(self, record):
            read()
            return True

    class H(logging.Handler):
        def createLock(self):
            self.lock = None         # (a run that hangs inside this handler must not keep logging.shutdown() waiting at exit)

        def emit(self, record):
            if case["hook"] == "formatter":
                self.format(record)
            else:
                read()

    class Fm(logging.Formatter):
        def format(self, record):
            read()
            return logging.Formatter.format(self, record)

    def fetch_body(x, deco):
        bodies.append(("fetch", x))
        if deco and action == "force-body":
            rec.force_sample_recording()
        return x + 1

    def send_body(*a):
        bodies.append(("send",) + a)

    def operation(fetch, send, deco):
        v = fetch(1)
        if deco and action in ("force-op", "force-ignored"):
            rec.force_sample_recording()
        if deco and action == "discard":
            rec.discard_recording()
        send("got", v)
        if case.get("term") == "raise":
            raise ValueError("failed")
        return v + 1

    fetch = rec.static_intercept_input("fetch")(lambda x: fetch_body(x, True))
    send = rec.static_intercept_output("send")(send_body)

    @rec.recording_params(RecordingParameters(sampling_rate=0.0 if action != "plain" else 1.0,
                                              ignore_enforced_sampling=action == "force-ignored"))
    class Op(object):
        @rec.operation()
        def execute(self):
            return operation(fetch, send, True)

    twin = _outcome(lambda: operation(lambda x: fetch_body(x, False), send_body, False))
    twin_bodies = list(bodies)
    del bodies[:]
    lg = logging.getLogger("playback.tape_recorder")
    old = (lg.level, lg.propagate, logging.root.manager.disable)
    hook = F() if case["hook"] == "filter" else H()
    if case["hook"] == "formatter":
        hook.setFormatter(Fm("%(message)s"))
    box = {}
    try:
        lg.setLevel(getattr(logging, case["level"]))
        lg.propagate = False
        logging.disable(logging.NOTSET)          # (the drivers run with logging switched off process-wide)
        (lg.addFilter if case["hook"] == "filter" else lg.addHandler)(hook)
        t = threading.Thread(target=lambda: box.update(o=_outcome(lambda: Op().execute())))
        t.daemon = True
        t.start()
        t.join(WATCHDOG_S)
        hung = t.is_alive()
    finally:
        (lg.removeFilter if case["hook"] == "filter" else lg.removeHandler)(hook)
        lg.setLevel(old[0])
        lg.propagate = old[1]
        logging.disable(old[2])
    b = box.get("o", ("hung", None))
    return {"hung": hung, "twin": [twin[0], repr(twin[1])], "decorated": [b[0], repr(b[1])], "same_outcome": twin == b,
            "same_bodies": twin_bodies == list(bodies), "cassette": [] if hung else list(spy.calls)}


def run_probe(case):
    if case["probe"] == "lazy":
        return probe_lazy(case)
    if case["probe"] == "loghook":
        return probe_loghook(case)
    return probe_shape(case)


if __name__ == '__main__':
    main({"C04": run_probe})
