"""C04 shape probes on the REAL decorators (implementation side only; the program DSL of the model has neither lazy
values nor call shapes):

 * lazy / one-shot results: an intercepted input or output returns a generator, an iterator, an open file-like object, a
   lock - the caller must get THE object the wrapped function returned, untouched (a generator not advanced, nothing
   consumed), with recording enabled (whatever the recorder manages to store of it) and disabled;
 * call shapes of operations and intercepted functions: no positional argument, keyword-only, `self` passed by keyword, an
   unhashable first argument of a class operation, a function used as an operation - with recording DISABLED every shape
   behaves exactly as the undecorated function (same result / same exception type, body executed once with the same
   arguments, cassette untouched).
Each probe runs the decorated and the undecorated twin and reports whether they agree."""
import io
import threading

from driver_common import main
from playback.tape_recorder import TapeRecorder
from playback.tape_cassettes.in_memory.in_memory_tape_cassette import InMemoryTapeCassette


class Spy(InMemoryTapeCassette):
    def __init__(self):
        super(Spy, self).__init__()
        self.calls = []

    def create_new_recording(self, category):
        self.calls.append("create")
        return super(Spy, self).create_new_recording(category)

    def save_recording(self, recording):
        self.calls.append("save")
        return super(Spy, self).save_recording(recording)

    def abort_recording(self, recording=None):
        self.calls.append("abort")
        return super(Spy, self).abort_recording(recording)

    def get_recording(self, recording_id):
        self.calls.append("get")
        return super(Spy, self).get_recording(recording_id)


def _outcome(fn):
    try:
        return ("val", fn())
    except Exception as ex:          # noqa
        return ("exn", type(ex).__name__)


LAZY = ["generator", "iterator", "filelike", "lock", "generator-unbounded"]


def make_lazy(kind, journal):
    if kind in ("generator", "generator-unbounded"):
        def gen():
            i = 0
            while kind == "generator-unbounded" or i < 3:
                if i > 50:
                    journal.append("runaway")
                    return
                journal.append("yield %d" % i)
                yield i
                i += 1
        return gen()
    if kind == "iterator":
        return iter([1, 2, 3])
    if kind == "filelike":
        return io.StringIO(u"abc")
    return threading.Lock()


def untouched(kind, obj, journal):
    if kind.startswith("generator"):
        return not [j for j in journal if j.startswith("yield") or j == "runaway"] and next(obj) == 0
    if kind == "iterator":
        return list(obj) == [1, 2, 3]
    if kind == "filelike":
        return obj.read() == u"abc"
    return obj.acquire(False)


def probe_lazy(case):
    kind, enabled, site = case["value"], case["enabled"], case["site"]
    spy = Spy()
    rec = TapeRecorder(spy)
    if enabled:
        rec.enable_recording()
    journal = []
    made = []

    def raw(x):
        journal.append("body")
        o = make_lazy(kind, journal)
        made.append(o)
        return o
    deco = rec.static_intercept_input("lazy_in") if site == "in" else rec.static_intercept_output("lazy_out")
    fn = deco(raw)
    got = {}

    class Op(object):
        @rec.operation()
        def execute(self):
            journal.append("op")
            r = fn(1)
            got["same"] = bool(made) and r is made[0]
            got["untouched"] = untouched(kind, r, journal)
            return 7
    o = _outcome(lambda: Op().execute())
    return {"outcome": [o[0], o[1] if o[0] == "exn" else (o[1] == 7)], "same_object": got.get("same"),
            "untouched": got.get("untouched"), "bodies": journal.count("body"), "runaway": "runaway" in journal}


SHAPES = ["function-no-args", "function-kwargs-only", "method-self-by-keyword", "class-op-unhashable-first",
          "class-op-no-args", "method-plain", "input-no-args", "output-kwargs-only"]


def probe_shape(case):
    shape = case["shape"]
    spy = Spy()
    rec = TapeRecorder(spy)          # recording DISABLED
    seen = []

    def twin_and_decorated():
        if shape in ("function-no-args", "function-kwargs-only"):
            def handle(event=None):
                seen.append(("handle", event))
                return ("ok", event)
            d = rec.operation()(handle)
            call = (lambda f: f()) if shape == "function-no-args" else (lambda f: f(event=5))
            return (lambda: call(handle)), (lambda: call(d))
        if shape in ("method-self-by-keyword", "method-plain"):
            class Svc(object):
                def raw(self, x=1):
                    seen.append(("raw", x))
                    return x + 1
            Svc.deco = rec.operation()(Svc.raw)
            s = Svc()
            if shape == "method-plain":
                return (lambda: Svc.raw(s, 2)), (lambda: Svc.deco(s, 2))
            return (lambda: Svc.raw(self=s, x=2)), (lambda: Svc.deco(self=s, x=2))
        if shape in ("class-op-unhashable-first", "class-op-no-args"):
            def cop(cls=None, x=1):
                seen.append(("cop", repr(cls), x))
                return x * 2
            d = rec.class_operation()(cop)
            if shape == "class-op-no-args":
                return (lambda: cop()), (lambda: d())
            return (lambda: cop([1, 2], 3)), (lambda: d([1, 2], 3))
        if shape == "input-no-args":
            def f():
                seen.append(("f",))
                return 4
            d = rec.static_intercept_input("shape_in")(f)
            return f, d
        def g(a=1, b=2):
            seen.append(("g", a, b))
            return a - b
        d = rec.static_intercept_output("shape_out")(g)
        return (lambda: g(b=5)), (lambda: d(b=5))
    twin, deco = twin_and_decorated()
    a = _outcome(twin)
    seen_twin = list(seen)
    del seen[:]
    b = _outcome(deco)
    return {"same_outcome": a == b, "twin": [a[0], repr(a[1])], "decorated": [b[0], repr(b[1])],
            "same_bodies": seen_twin == seen, "bodies": len(seen), "cassette": list(spy.calls)}


def run_probe(case):
    if case["probe"] == "lazy":
        return probe_lazy(case)
    return probe_shape(case)


if __name__ == '__main__':
    main({"C04": run_probe})
