"""Round-6 case kinds of the recorder properties (implementation side; built on recorder_driver's pieces):

kind "xproc"  (C01) - a history whose runs are spread over SEVERAL interpreter processes that share nothing but a file-based
    cassette directory: case["segments"] = [{"runs": [indices], "hashseed": "<PYTHONHASHSEED>"}, ..].  Recording in one process
    and replaying in another (with another hash seed) is the normal use of a persistent cassette; a history run inside one
    interpreter never leaves it.  Observables have the shape of a history's ({"runs": [...]}).
kind "nested" (C02) - a replay started from INSIDE an operation that is itself being recorded on the same recorder (a "replay
    this recording" endpoint of a service whose handlers are all decorated): recording mode and playback mode are on at the
    same time.  case = {"runs": [record run of P], "replayed": operation P', "pre": bool, "post": bool, "cassette": ..}.
kind "exc_history" (C03) - a history of operations ending in exceptions of one TYPE whose INSTANCES differ in what they carry
    (attributes) and in whether they can be encoded: case["steps"] = [{"ty": "PayloadError"|"OtherPayloadError", "rec": payload,
    "play": payload, "new_recorder": bool}, ..]; payload = {"kind": "value", "v": <pyval literal>} | {"kind": "unser"} |
    {"kind": "deep"}.  Every step records an operation raising ty(payload "rec") and replays an operation raising
    ty(payload "play"); observed: the operation entry of the recorded and of the playback outputs."""
import json
import os
import subprocess
import sys
import tempfile
import shutil

from lib import pyvals as pv
from lib.pyvals import to_py, from_py


class PayloadError(Exception):
    """a service exception that carries data which is not part of its message / repr"""
    def __init__(self, message="job failed", payload=None):
        Exception.__init__(self, message)
        self.payload = payload

    def __repr__(self):
        return "%s(%r)" % (type(self).__name__, self.args[0] if self.args else "")


class OtherPayloadError(PayloadError):
    pass


PAYLOAD_TYPES = {"PayloadError": PayloadError, "OtherPayloadError": OtherPayloadError}


def _rdrv():
    import recorder_driver
    return recorder_driver


# ---- xproc ---------------------------------------------------------------------------------------------------------------------
def run_xproc(case):
    d = tempfile.mkdtemp(prefix="verif_xproc_")
    try:
        ids, pos, runs_obs = [], 0, [None] * len(case["runs"])
        for k, seg in enumerate(case["segments"]):
            cin, cout = os.path.join(d, "seg%d_in.json" % k), os.path.join(d, "seg%d_out.json" % k)
            json.dump([dict(case=case, dir=os.path.join(d, "cassette"), ids=ids, pos=pos, runs=seg["runs"])], open(cin, "w"))
            env = dict(os.environ, PYTHONHASHSEED=str(seg["hashseed"]))
            try:
                p = subprocess.run([sys.executable, os.path.join(os.path.dirname(os.path.abspath(__file__)), "recorder_driver.py"),
                                    "XSEG", cin, cout], env=env, cwd="/", capture_output=True, text=True, timeout=120)
            except subprocess.TimeoutExpired:
                return {"driver_exception": "segment %d did not finish within 120 s" % k, "trace": ""}
            if p.returncode != 0 or not os.path.exists(cout):
                return {"driver_exception": "segment %d rc=%s" % (k, p.returncode), "trace": (p.stdout + p.stderr)[-1500:]}
            res = json.load(open(cout))[0]
            if "driver_exception" in res:
                return res
            ids, pos = res["ids"], res["pos"]
            for i, ob in zip(seg["runs"], res["runs"]):
                runs_obs[i] = ob
        return {"runs": runs_obs}
    finally:
        shutil.rmtree(d, ignore_errors=True)


def run_segment(job):
    """one process of an xproc history: a fresh recorder over the shared file-based cassette directory"""
    rdrv = _rdrv()
    from playback.tape_recorder import TapeRecorder
    from playback.tape_cassettes.file_based.file_based_tape_cassette import FileBasedTapeCassette
    case = job["case"]
    rdrv.UNSHARE[0] = bool(case.get("unshare"))
    os.makedirs(job["dir"], exist_ok=True)
    spy = rdrv.Spy(FileBasedTapeCassette(job["dir"]))
    spy.ids = list(job["ids"])
    spy.ords = {i: k for k, i in enumerate(spy.ids)}
    rec = TapeRecorder(spy)
    rng = rdrv.ScriptedRandom(case.get("draws", []))
    rng.pos = job["pos"]
    rec._random = rng
    out = [rdrv.do_one_run(rec, spy, rng, case["runs"][i]) for i in job["runs"]]
    return {"runs": out, "ids": spy.ids, "pos": rng.pos}


# ---- nested --------------------------------------------------------------------------------------------------------------------
def run_nested(case):
    rdrv = _rdrv()
    from playback.tape_recorder import TapeRecorder, RecordingParameters
    rdrv.UNSHARE[0] = bool(case.get("unshare"))
    inner, cleanup = rdrv.make_cassette(case.get("cassette", "memory"))
    spy = rdrv.Spy(inner)
    rec = TapeRecorder(spy)
    rng = rdrv.ScriptedRandom(case.get("draws", []))
    rec._random = rng
    try:
        first = rdrv.do_one_run(rec, spy, rng, case["runs"][0])
        ctx_in = rdrv.Ctx(rec)
        call_inner = rdrv.build_operation(ctx_in, case["replayed"], None)
        box = {"own_bodies": []}
        own_in = rec.static_intercept_input("endpoint.context")(lambda x: box["own_bodies"].append("in") or 41)
        own_out = rec.static_intercept_output("endpoint.report")(lambda *a: box["own_bodies"].append("out"))

        @rec.recording_params(RecordingParameters(sampling_rate=1.0))
        class ReplayEndpoint(object):
            @rec.operation()
            def execute(self):
                if case.get("pre", True):
                    own_in(1)
                mark = len(spy.log)
                box["modes_before"] = [bool(rec.in_recording_mode), bool(rec.in_playback_mode)]
                try:
                    pb = rec.play(spy.ids[0] if spy.ids else "Nope/0000", lambda recording: call_inner())
                    box["play"] = {"outcome": {"o": "val", "v": {"t": "none"}},
                                   "pbouts": rdrv.datum_list((x.key, x.value) for x in pb.playback_outputs),
                                   "recouts": rdrv.datum_list((x.key, x.value) for x in pb.recorded_outputs)}
                except BaseException as ex:
                    box["play"] = {"outcome": rdrv.outcome_of_exc(ex), "pbouts": [], "recouts": []}
                box["play"]["cass"] = list(spy.log[mark:])
                box["modes_after"] = [bool(rec.in_recording_mode), bool(rec.in_playback_mode)]
                if case.get("post", True):
                    own_out("replayed", len(box["play"]["pbouts"]))
                return "served"

        rec.enable_recording()
        spy.log = []
        before = repr(sorted(getattr(spy.inner, "_recordings", {}).items())) if case.get("cassette", "memory") == "memory" else None
        try:
            r = ReplayEndpoint().execute()
            outer_outcome = {"o": "val", "v": from_py(r)}
        except BaseException as ex:
            outer_outcome = rdrv.outcome_of_exc(ex)
        saves = [c for c in spy.log if c["c"] == "save"]
        play = box.get("play", {"outcome": {"o": "exn", "e": "not-reached"}, "pbouts": [], "recouts": [], "cass": []})
        play["trace"] = ctx_in.trace
        return {"record": first, "play": play,
                "outer": {"outcome": outer_outcome, "cass": [c["c"] for c in spy.log], "saved": saves[0]["data"] if saves else None,
                          "own_bodies": box["own_bodies"], "modes_before": box.get("modes_before"),
                          "modes_after": box.get("modes_after")},
                "state": rdrv.state_of(rec)}
    finally:
        cleanup()


# ---- exc_history ---------------------------------------------------------------------------------------------------------------
def _payload(p):
    if p["kind"] == "value":
        return to_py(p["v"])
    if p["kind"] == "unser":
        return {"handle": pv.Unser(3)}                 # carries something the serializer refuses
    deep = cur = []
    for _ in range(5000):                              # nested beyond what the encoder's recursion can take
        nxt = []
        cur.append(nxt)
        cur = nxt
    return deep


def _entry_form(value):
    """canonical form of an operation entry: the exception itself (type + attributes), or the reduced form"""
    if not (isinstance(value, dict) and set(value) == {"args", "kwargs"} and len(value["args"]) == 1):
        return {"form": "other", "v": repr(value)[:200]}
    x = value["args"][0]
    if isinstance(x, BaseException):
        attrs = {k: v for k, v in getattr(x, "__dict__", {}).items()}
        return {"form": "exception", "ty": type(x).__name__, "attrs": sorted([k, pv.canon_json(from_py(v))] for k, v in attrs.items())}
    if isinstance(x, dict) and set(x) == {"error_type", "error_repr"}:
        et = x["error_type"]
        return {"form": "reduced", "ty": et.__name__ if isinstance(et, type) else repr(et)[:80], "repr": str(x["error_repr"])[:200]}
    return {"form": "value", "v": repr(x)[:200]}


def run_exc_history(case):
    rdrv = _rdrv()
    from playback.tape_recorder import TapeRecorder, RecordingParameters
    inner, cleanup = rdrv.make_cassette(case.get("cassette", "memory"))
    spy = rdrv.Spy(inner)
    OPK = "output: %s #1.output" % TapeRecorder.OPERATION_OUTPUT_ALIAS
    cur = {}
    out = []

    def new_recorder():
        rec = TapeRecorder(spy)
        sent = rec.static_intercept_output("notify")(lambda *a: None)

        @rec.recording_params(RecordingParameters(sampling_rate=1.0))
        class Job(object):
            @rec.operation()
            def execute(self):
                sent("started")
                raise PAYLOAD_TYPES[cur["ty"]]("job failed", _payload(cur["payload"]))
        return rec, Job

    try:
        rec, Job = new_recorder()
        for st in case["steps"]:
            if st.get("new_recorder"):
                rec, Job = new_recorder()
            ob = {}
            n_before = len(spy.ids)
            spy.log = []
            rec.enable_recording()
            cur.update(ty=st["ty"], payload=st["rec"])
            try:
                Job().execute()
                ob["record_outcome"] = {"o": "val"}
            except BaseException as ex:
                ob["record_outcome"] = rdrv.outcome_of_exc(ex)
            rec.disable_recording()
            ob["saved"] = any(c["c"] == "save" for c in spy.log)
            if ob["saved"] and len(spy.ids) > n_before:
                cur.update(ty=st["ty"], payload=st["play"])
                try:
                    pb = rec.play(spy.ids[-1], lambda recording: Job().execute())
                    ob["play_outcome"] = {"o": "val", "v": {"t": "none"}}
                    r = [x.value for x in pb.recorded_outputs if x.key == OPK]
                    p = [x.value for x in pb.playback_outputs if x.key == OPK]
                    ob["rec_entry"] = _entry_form(r[0]) if len(r) == 1 else {"form": "missing", "n": len(r)}
                    ob["play_entry"] = _entry_form(p[0]) if len(p) == 1 else {"form": "missing", "n": len(p)}
                except BaseException as ex:
                    ob["play_outcome"] = rdrv.outcome_of_exc(ex)
            out.append(ob)
        return {"steps": out}
    finally:
        cleanup()


# ---- shared (round 7) --------------------------------------------------------------------------------------------------------------
def to_py_sharing(j, bound=None):
    """pyval literal with ONE internally shared node: {"t": "let", "x": <literal>, "in": <literal with {"t": "ref"} leaves>} builds x
    once and puts that very object at every ref (lists / tuples / dicts around it are walked; anything else goes to to_py)."""
    t = j.get("t")
    if t == "let":
        return to_py_sharing(j["in"], to_py_sharing(j["x"]))
    if t == "ref":
        return bound
    if t == "list":
        return [to_py_sharing(x, bound) for x in j["v"]]
    if t == "tuple":
        return tuple(to_py_sharing(x, bound) for x in j["v"])
    if t == "dict":
        return {k: to_py_sharing(v, bound) for k, v in j["v"]}
    return to_py(j)


def run_shared(case):
    """kind "shared" (C01): the mutation probe of recorder_driver (hand-written operation working in place on what an input
    returned) with input values in which one plain list / dict is reachable TWICE (two entries sharing a row, [x, x])."""
    rdrv = _rdrv()
    old = rdrv.to_py
    rdrv.to_py = lambda j: to_py_sharing(j) if isinstance(j, dict) else old(j)
    try:
        return rdrv.run_mutation_probe(case)
    finally:
        rdrv.to_py = old


KINDS = {"xproc": run_xproc, "nested": run_nested, "exc_history": run_exc_history, "shared": run_shared}
