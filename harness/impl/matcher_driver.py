"""C14: the real TapeCassette matcher on (filter, recorded value) pairs."""
from driver_common import main
from lib.pyvals import to_py
from playback.tape_cassette import TapeCassette


def code(fn):
    try:
        r = fn()
    except TypeError:
        return 2, "TypeError"
    except Exception as ex:   # any other exception
        return 3, type(ex).__name__
    if r is True:
        return 1, None
    if r is False:
        return 0, None
    return (1 if r else 0), "non-bool:%r" % (r,)


def run_c14(case):
    f = to_py(case["filter"])
    if case["recorded"] is None:
        meta = {}
    else:
        meta = {"k": to_py(case["recorded"])}
    v, ve = code(lambda: TapeCassette._match_metadata_value(f, meta.get("k")))
    m, me = code(lambda: TapeCassette.match_against_recorded_metadata({"k": f}, meta))
    # determinism: ask again
    v2, _ = code(lambda: TapeCassette._match_metadata_value(f, meta.get("k")))
    return {"value": v, "meta": m, "again": v2, "err": ve or me}


if __name__ == '__main__':
    main({"C14": run_c14})
