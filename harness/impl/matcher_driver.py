"""C14: the real TapeCassette matcher on (filter, recorded value) pairs."""
from driver_common import main
from lib.pyvals import to_py
import json
import warnings

from playback.tape_cassette import TapeCassette
from playback.tape_cassettes.s3.s3_tape_cassette import S3TapeCassette


def code(fn):
    try:
        r = fn()
    except TypeError:
        return 2, "TypeError"
    except Exception as ex:   # any other exception
        return 3, type(ex).__name__
    if r is True:
        return 1, None
    if r is False:
        return 0, None
    return (1 if r else 0), "non-bool:%r" % (r,)


def run_c14(case):
    f = to_py(case["filter"])
    if case["recorded"] is None:
        meta = {}
    else:
        meta = {"k": to_py(case["recorded"])}
    v, ve = code(lambda: TapeCassette._match_metadata_value(f, meta.get("k")))
    m, me = code(lambda: TapeCassette.match_against_recorded_metadata({"k": f}, meta))
    # determinism: ask again
    v2, _ = code(lambda: TapeCassette._match_metadata_value(f, meta.get("k")))
    # the interpreter's warnings configuration is not an input of matching: once more with every warning an error
    # (python -W error, PYTHONWARNINGS=error, pytest filterwarnings = error)
    with warnings.catch_warnings():
        warnings.simplefilter("error")
        w, we = code(lambda: TapeCassette.match_against_recorded_metadata({"k": f}, meta))
    out = {"value": v, "meta": m, "again": v2, "err": ve or me, "s3": 9, "strict": w, "strict_err": we}
    if case.get("json_native"):
        # the S3 content filter: the same matcher applied to the JSON text of the stored metadata object
        # (s3_tape_cassette.py:247-260); comparable with the others when filter and metadata are JSON-native
        text = json.dumps(meta)
        s3, s3e = code(lambda: S3TapeCassette._create_content_filter_func({"k": f})(text))
        out["s3"] = s3
        out["err"] = out["err"] or s3e
    return out


if __name__ == '__main__':
    main({"C14": run_c14})
