"""C07: histories of create / save / get_recording / get_recording_metadata on the three REAL cassettes
(in-memory; file-based in a scratch directory under /tmp that is removed afterwards; S3 through the real
S3BasicFacade over the fake bucket).  uuid1 and the S3 clock are deterministic fakes.  A `bulk` op is a run of n create+save
calls of other recordings (long histories); cases with "names": "count" report the number of stored names after every call
instead of the names.  Values may share
sub-objects (pool entries referenced by {"t":"ref","n":k})."""
import datetime
import os
import shutil
import tempfile
import types
import zlib

import fake_s3
from driver_common import main
from lib.pyvals import to_py, from_py, CLASSES, Unser

BASE = datetime.datetime(2020, 2, 27, 12, 0, 0)
_n = [0]


class FakeUuid(object):
    def __init__(self):
        self.n = 0
        self.low_digit_first = False      # (bulk ops: like uuid1, whose hex text starts with the fastest moving field)

    def uuid1(self):
        self.n += 1
        h = '%032x' % self.n
        return types.SimpleNamespace(hex=h[::-1] if self.low_digit_first else h)


def build(j, pool):
    """tagged JSON -> Python value; {"t":"ref","n":k} is THE k-th pool object (shared, not copied)."""
    t = j["t"]
    if t == "ref":
        return pool[j["n"]]
    if t == "list":
        return [build(x, pool) for x in j["v"]]
    if t == "tuple":
        return tuple(build(x, pool) for x in j["v"])
    if t == "set":
        return set(build(x, pool) for x in j["v"])
    if t == "dict":
        return {k: build(v, pool) for k, v in j["v"]}
    if t == "obj":
        o = CLASSES[j["cls"]]()
        for k, v in j["v"]:
            setattr(o, k, build(v, pool))
        return o
    return to_py(j)


def exn_name(ex, saving=False):
    n = type(ex).__name__
    if isinstance(ex, AssertionError):
        return "AssertionError"
    if n == "NoSuchRecording":
        return n
    if saving and isinstance(ex, ValueError):
        return "EncodeError"
    if isinstance(ex, (zlib.error, ValueError)):
        return "DecodeError"
    if isinstance(ex, (AttributeError, TypeError)):
        return "ShapeError"
    return "other:" + n


def show(rec):
    keys = list(rec.get_all_keys())
    out = {"id": rec.id, "data": [], "meta": from_py(rec.get_metadata()), "copy_differs": []}
    for k in keys:
        v = rec.get_data(k)
        out["data"].append([k, from_py(v)])
        d = from_py(rec.get_data_direct(k))
        if d != out["data"][-1][1]:
            out["copy_differs"].append(k)
    return out


def scribble(value):
    """in-place damage to a mutable value (first list / dict / object found)."""
    if isinstance(value, list):
        value.append("scribbled")
        return True
    if isinstance(value, dict):
        value["scribbled"] = 1
        return True
    if hasattr(value, "__dict__") and not isinstance(value, type):
        value.__dict__["scribbled"] = 1
        return True
    return False


def run_c07(case):
    s3c = fake_s3.install()
    import playback.tape_cassettes.in_memory.in_memory_tape_cassette as memmod
    import playback.tape_cassettes.file_based.file_based_tape_cassette as filemod
    fu = FakeUuid()
    s3c.uuid = fu
    memmod.uuid = fu
    filemod.uuid = fu
    fake_s3.CLOCK.set(BASE)
    _n[0] += 1
    kind = case["kind"]
    scratch = None
    bucket = None
    # `reader`: a SECOND cassette object over the same store, created before anything is saved and kept for the whole
    # history (ops with via="reader": a reader polling while the writer saves); the in-memory cassette's store is the
    # object itself, so there the reader is the writer
    if kind == "mem":
        cas = memmod.InMemoryTapeCassette()
        reader = cas
        names = lambda: list(cas.get_all_recording_ids())
    elif kind == "file":
        scratch = tempfile.mkdtemp(prefix="s3store-c07-%d-" % os.getpid(), dir="/tmp")
        cas = filemod.FileBasedTapeCassette(os.path.join(scratch, "cassette"))
        reader = filemod.FileBasedTapeCassette(os.path.join(scratch, "cassette"))
        names = lambda: sorted(os.listdir(cas.directory))
    else:
        bucket = "c07-%d" % _n[0]
        cas = s3c.S3TapeCassette(bucket, key_prefix=case.get("prefix", ""), read_only=False)
        reader = s3c.S3TapeCassette(bucket, key_prefix=case.get("prefix", ""))       # read-only: the default
        store = fake_s3.store(bucket)
        names = lambda: sorted(store.data)
    view = lambda op: reader if op.get("via") == "reader" else cas
    slots = {}
    fetched = []
    out = []
    try:
        for op in case["ops"]:
            o = {"res": "ok"}
            k = op["op"]
            try:
                if k in ("create", "mk"):
                    rec = cas.create_new_recording(op["cat"]) if k == "create" else s3c.MemoryRecording(op["id"])
                    o["id"] = rec.id
                    slots[op["slot"]] = rec
                elif k == "fill":
                    rec = slots[op["slot"]]
                    pool = []
                    for pj in op.get("pool", []):
                        pool.append(build(pj, pool))
                    if op.get("reset"):
                        rec.recording_data.clear()
                        rec.recording_metadata.clear()
                    for key, v in op.get("data", []):
                        rec[key] = build(v, pool)         # __setitem__: also on an already saved recording
                    rec._add_metadata({key: build(v, pool) for key, v in op.get("meta", [])})
                elif k == "save":
                    rec = slots[op["slot"]]
                    o["closed_before"] = rec._closed
                    try:
                        cas.save_recording(rec)
                    except Exception as ex:
                        o["res"] = exn_name(ex, saving=True)
                        o["msg"] = str(ex)[:100]
                elif k == "bulk":
                    # a run of n saves of OTHER recordings (created on this cassette, one small datum each): the long
                    # history between the save of a recording and its fetch; reported as a whole
                    fmt = "%s/20200227/%s" if kind == "s3" else "%s/%s"
                    o["first"] = fu.n + 1
                    ids, irregular = [], False
                    fu.low_digit_first = True
                    try:
                        for i in range(op["n"]):
                            rec = cas.create_new_recording(op["cat"])
                            irregular = irregular or rec.id != fmt % (op["cat"], ('%032x' % fu.n)[::-1])
                            ids.append(rec.id)
                            rec.set_data("k", i)
                            cas.save_recording(rec)
                    finally:
                        fu.low_digit_first = False
                    o["n_ok"] = len(ids)
                    if irregular:
                        o["ids"] = ids
                elif k == "get":
                    rec = view(op).get_recording(op["id"])
                    fetched.append(rec)
                    o["rec"] = show(rec)
                elif k == "get_meta":
                    m = view(op).get_recording_metadata(op["id"])
                    fetched.append(m)
                    o["val"] = from_py(m)
                elif k == "scribble_fetched":
                    o["done"] = False
                    if fetched:
                        f = fetched[op["n"] % len(fetched)]
                        if isinstance(f, dict):
                            f["scribbled"] = 1
                            o["done"] = True
                        else:
                            f.set_data("scribbled", [1])
                            f.add_metadata({"scribbled": True})
                            for key in list(f.get_all_keys()):
                                scribble(f.get_data_direct(key))
                            for v in list(f.get_metadata().values()):
                                scribble(v)
                            o["done"] = True
                elif k == "scribble_saved":
                    rec = slots[op["slot"]]
                    for key in list(rec.get_all_keys()):
                        scribble(rec.get_data_direct(key))
                    for v in list(rec.get_metadata().values()):
                        scribble(v)
                    rec["scribbled"] = 1
                else:
                    raise ValueError(k)
            except BaseException as ex:
                o["res"] = exn_name(ex)
                o["msg"] = str(ex)[:100]
            if case.get("names") == "count":
                o["names_n"] = len(names())      # (long histories: how many names, not 1000+ texts after every call)
            else:
                o["names"] = names()
            out.append(o)
    finally:
        if scratch:
            shutil.rmtree(scratch, ignore_errors=True)
        if bucket:
            fake_s3.STORES.pop(bucket, None)
    return {"ops": out}


if __name__ == '__main__':
    main({"C07": run_c07})
