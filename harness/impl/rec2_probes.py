"""Round-7 case kinds of the recorder properties (implementation side; built on recorder_driver's pieces, dispatched in front
of a property's own dispatch by recorder_driver's __main__):

kind "nested_scope" (C17, C18) - ONE recorded operation (class Outer, registered with the case's sampling parameters) inside
    which OTHER SCOPES of the same recorder are opened and closed before it ends: a replay of an earlier recording ("play"),
    another decorated operation invoked from its body ("call:return" / "call:raise"; whatever that call does - start, refuse,
    fail - is caught by the body when it is an ordinary exception), mixed with the operation's own intercepted input / output,
    record_data and force requests, and then the outer operation returns / raises / is interrupted.
    case = {"outer": {"rate": [n, d], "ignore": bool}, "steps": [..], "term": "return"|"raise"|"interrupt",
            "interrupt_kind": .., "draws": [..], "cassette": ..}.
    Observed: the cassette calls with creation ordinals (every created recording: how often saved / aborted), the metadata of
    what was saved, draws consumed, the default lookup of the outer category, the recorder's state afterwards.
"""
from fractions import Fraction

from lib.pyvals import from_py


def _rdrv():
    import recorder_driver
    return recorder_driver


def _compact_log(log, first_ord):
    """cassette calls as [kind, creation ordinal] (+ metadata / keys for a save); creations are numbered in order"""
    out, n = [], first_ord
    for c in log:
        if c["c"] == "create":
            out.append({"c": "create", "ord": n, "cat": c["cat"]})
            n += 1
        elif c["c"] == "save":
            out.append({"c": "save", "ord": c["ord"], "meta": c["meta"], "keys": sorted(k for k, _ in c["data"]),
                        "clock": c["clock"]})
        elif c["c"] in ("abort", "savefailed"):
            out.append({"c": c["c"], "ord": c["ord"]})
    return out


def run_nested_scope(case):
    rdrv = _rdrv()
    from playback.tape_recorder import TapeRecorder, RecordingParameters
    rdrv.INTERRUPT_KIND[0] = case.get("interrupt_kind", "custom")
    inner, cleanup = rdrv.make_cassette(case.get("cassette", "memory"))
    spy = rdrv.Spy(inner)
    rec = TapeRecorder(spy)
    rng = rdrv.ScriptedRandom(case.get("draws", []))
    rec._random = rng
    nested = []
    try:
        fetch = rec.static_intercept_input("fetch")(lambda x: x * 2)
        send = rec.static_intercept_output("send")(lambda *a: None)

        @rec.recording_params(RecordingParameters(sampling_rate=1.0))
        class Leaf(object):
            @rec.operation()
            def execute(self):
                send("leaf", fetch(3))
                return "leaf-done"

        @rec.recording_params(RecordingParameters(sampling_rate=1.0))
        class Inner(object):
            @rec.operation()
            def execute(self, how):
                send("inner", fetch(4))
                if how == "raise":
                    raise ValueError("inner failed")
                return 5

        o = case["outer"]

        def attempt(label, f):
            try:
                f()
                nested.append([label, "val"])
            except Exception as ex:          # the outer operation handles what a nested scope raises and carries on
                nested.append([label, type(ex).__name__])

        @rec.recording_params(RecordingParameters(sampling_rate=float(Fraction(*o["rate"])),
                                                  ignore_enforced_sampling=bool(o.get("ignore"))))
        class Outer(object):
            @rec.operation()
            def execute(self):
                for st in case["steps"]:
                    if st == "in":
                        fetch(1)
                    elif st == "out":
                        send("outer", 1)
                    elif st == "data":
                        rec.record_data("note", [1, 2])
                    elif st == "force":
                        rec.force_sample_recording()
                    elif st == "play":
                        attempt(st, lambda: rec.play(spy.ids[0], lambda recording: Leaf().execute()))
                    elif st.startswith("call:"):
                        attempt(st, lambda: Inner().execute(st[5:]))
                    else:
                        raise ValueError(st)
                if case["term"] == "raise":
                    raise ValueError("outer failed")
                if case["term"] == "interrupt":
                    raise rdrv.INTERRUPTS[rdrv.INTERRUPT_KIND[0]]()
                return "outer-done"

        rec.enable_recording()
        Leaf().execute()
        leaf_saved = any(c["c"] == "save" for c in spy.log)
        first_ord = len(spy.ids)
        spy.log = []
        pos = rng.pos
        try:
            outcome = {"o": "val", "v": from_py(Outer().execute())}
        except BaseException as ex:
            outcome = rdrv.outcome_of_exc(ex)
        log = _compact_log(spy.log, first_ord)
        draws_used = rng.pos - pos
        state = rdrv.state_of(rec)
        from playback.studio.recordings_lookup import find_matching_recording_ids, RecordingLookupProperties
        rec.tape_cassette = inner
        try:
            lookup = sorted(spy.ords.get(i, -1) for i in find_matching_recording_ids(
                rec, "Outer", RecordingLookupProperties(start_date=None)))
        except Exception as ex:
            lookup = {"error": type(ex).__name__}
        rec.tape_cassette = spy
        return {"leaf_saved": leaf_saved, "outer_ord": first_ord, "outcome": outcome, "nested": nested, "cass": log,
                "draws_used": draws_used, "state": state, "lookup": lookup}
    finally:
        cleanup()


# ---- file_store ------------------------------------------------------------------------------------------------------------------
def _bad_value(which):
    from lib import pyvals as pv
    if which == "unser":
        return pv.Unser(3)                              # __getstate__ raises
    if which == "unser-nested":
        return {"rows": [1, {"handle": pv.Unser(4)}]}
    deep = cur = []
    for _ in range(5000):                               # nested beyond what the encoder's recursion can take
        nxt = []
        cur.append(nxt)
        cur = nxt
    return deep


def run_file_store(case):
    """C05 on a PERSISTENT cassette: operations of one or two classes recorded into a file cassette directory, some of
    which captured a value the serializer refuses (as intercepted input result / output argument / record_data value /
    operation result).  After every operation the store is inspected the way its users do: each created recording fetched
    by id, the category looked up, every listed recording replayed."""
    import os
    import shutil
    import tempfile
    rdrv = _rdrv()
    from playback.tape_recorder import TapeRecorder, RecordingParameters
    from playback.exceptions import NoSuchRecording
    from playback.tape_cassettes.file_based.file_based_tape_cassette import FileBasedTapeCassette
    d = tempfile.mkdtemp(prefix="verif_fstore_")
    try:
        inner = FileBasedTapeCassette(os.path.join(d, "cassette"))

        class ThinSpy(rdrv.Spy):
            def save_recording(self, recording):
                n = self.ords.get(recording.id, -1)
                try:
                    self.inner.save_recording(recording)
                except Exception as ex:
                    self.log.append({"c": "savefailed", "ord": n, "e": type(ex).__name__})
                    raise
                self.log.append({"c": "save", "ord": n})
        spy = ThinSpy(inner)
        rec = TapeRecorder(spy)
        cur = {}
        fetch = rec.static_intercept_input("fetch")(lambda x: cur["v"] if cur["how"] == "input" else x + 1)
        send = rec.static_intercept_output("send")(lambda *a: None)

        def body(self):
            got = fetch(1)
            send("payload", cur["v"] if cur["how"] == "output" else 2)
            if cur["how"] == "data":
                rec.record_data("note", cur["v"])
            send("done", 0 if cur["how"] == "input" else got)
            return cur["v"] if cur["how"] == "result" else "ok"
        classes = {}
        for name in ("OpA", "OpB"):
            classes[name] = rec.recording_params(RecordingParameters(sampling_rate=1.0))(
                type(name, (object,), {"execute": rec.operation()(body)}))
        out = []
        specs = []
        for st in case["steps"]:
            spec = {"how": st["how"], "v": _bad_value(st["value"]) if st["value"] != "good" else [1, "two", {"k": 3.5}]}
            specs.append(spec)
            cur.clear()
            cur.update(spec)
            spy.log = []
            rec.enable_recording()
            try:
                classes[st["cls"]]().execute()
                o = "val"
            except BaseException as ex:
                o = type(ex).__name__
            rec.disable_recording()
            ob = {"outcome": o, "cass": [[c["c"], c.get("ord", len(spy.ids) - 1)] for c in spy.log if c["c"] != "get"],
                  "stored": [], "lookup": {}, "replays": []}
            for k, rid in enumerate(spy.ids):
                try:
                    inner.get_recording(rid)
                    ob["stored"].append("whole")
                except NoSuchRecording:
                    ob["stored"].append("absent")
                except Exception as ex:
                    ob["stored"].append("broken:" + type(ex).__name__)
            for cat in sorted(classes):
                try:
                    ids = list(inner.iter_recording_ids(cat))
                    ob["lookup"][cat] = sorted(spy.ords.get(i, -1) for i in ids)
                except Exception as ex:
                    ob["lookup"][cat] = {"error": type(ex).__name__}
                    ids = []
                for rid in ids:
                    k = spy.ords.get(rid, -1)
                    if 0 <= k < len(specs):
                        cur.clear()
                        cur.update(specs[k])
                    try:
                        pb = rec.play(rid, lambda recording: classes[cat]().execute())
                        same = rdrv.canon_items(rdrv.datum_list((x.key, x.value) for x in pb.playback_outputs)) == \
                            rdrv.canon_items(rdrv.datum_list((x.key, x.value) for x in pb.recorded_outputs))
                        ob["replays"].append([k, "same-outputs" if same else "different-outputs"])
                    except Exception as ex:
                        ob["replays"].append([k, type(ex).__name__])
            ob["replays"].sort()
            ob["files"] = len(os.listdir(inner.directory))
            out.append(ob)
        return {"steps": out}
    finally:
        shutil.rmtree(d, ignore_errors=True)


# ---- repatched -------------------------------------------------------------------------------------------------------------------
def run_repatched(case):
    """C09: ONE recorder replays a recording, the stored recording is then changed UNDER THE SAME ID through the cassette API
    (a recording patched after a replay failed on a missing key; a re-import), and the recorder replays that id again.  The
    second replay is compared with the same replay on a FRESH recorder over the same cassette: a replay is a function of the
    stored recording and the program, not of what the recorder replayed before.
    case = {"first": [args of the input calls of program v1], "second": [.. of program v2], "replay": "first"|"second",
            "policy": "fail"|"run"|"value", "cassette": "memory"|"file", "between": number of other replays in between}"""
    rdrv = _rdrv()
    from playback.tape_recorder import TapeRecorder, RecordingParameters
    from playback.recordings.memory.memory_recording import MemoryRecording
    inner, cleanup = rdrv.make_cassette(case.get("cassette", "memory"))
    cur = {}
    kw = {"run": dict(run_intercepted_when_missing=True), "value": dict(value_when_missing=-1)}.get(case["policy"], {})

    def service(rec):
        fetch = rec.static_intercept_input("fetch", **kw)(lambda x: cur["base"] + x)
        send = rec.static_intercept_output("send")(lambda *a: None)

        @rec.recording_params(RecordingParameters(sampling_rate=1.0))
        class Op(object):
            @rec.operation()
            def execute(self):
                vals = [fetch(a) for a in cur["calls"]]
                send("sum", vals)
                return vals
        return Op

    def replay(rec, Op, rid, calls):
        cur.update(calls=calls, base=500)
        try:
            pb = rec.play(rid, lambda recording: Op().execute())
            return {"outcome": {"o": "val", "v": {"t": "none"}},
                    "pbouts": rdrv.datum_list((x.key, x.value) for x in pb.playback_outputs),
                    "recouts": rdrv.datum_list((x.key, x.value) for x in pb.recorded_outputs), "state": rdrv.state_of(rec)}
        except BaseException as ex:
            return {"outcome": rdrv.outcome_of_exc(ex), "pbouts": [], "recouts": [], "state": rdrv.state_of(rec)}
    try:
        spy = rdrv.Spy(inner)
        rec = TapeRecorder(spy)
        Op = service(rec)
        rec.enable_recording()
        for calls, base in ((case["first"], 10), (case["second"], 20), ([7], 30)):
            cur.update(calls=calls, base=base)
            Op().execute()
        rec.disable_recording()
        if len(spy.ids) != 3:
            return {"driver_exception": "set-up: %d recordings instead of 3" % len(spy.ids), "trace": ""}
        prog = case[case.get("replay", "second")]
        out = {"replay1": replay(rec, Op, spy.ids[0], prog)}
        for _ in range(case.get("between", 0)):
            replay(rec, Op, spy.ids[2], [7])
        # the stored recording under id 0 now gets the data of recording 1 (its own metadata kept)
        old, donor = inner.get_recording(spy.ids[0]), inner.get_recording(spy.ids[1])
        new = MemoryRecording(_id=spy.ids[0], recording_data=dict((k, donor.get_data(k)) for k in donor.get_all_keys()),
                              recording_metadata=dict(old.get_metadata()))
        inner.save_recording(new)
        out["replay2"] = replay(rec, Op, spy.ids[0], prog)
        rec2 = TapeRecorder(inner)
        out["fresh2"] = replay(rec2, service(rec2), spy.ids[0], prog)
        return out
    finally:
        cleanup()


KINDS = {"nested_scope": run_nested_scope, "file_store": run_file_store, "repatched": run_repatched}


def in_front_of(fallback):
    def run(case):
        f = KINDS.get(case.get("kind")) if isinstance(case, dict) else None
        return f(case) if f else fallback(case)
    return run
