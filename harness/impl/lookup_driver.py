"""C10: the three REAL cassettes (in-memory, file-based in a scratch directory, S3 behind the real
S3BasicFacade over the fake bucket) populated by the same history of saves, listed through
iter_recording_ids and through find_matching_recording_ids.

Fakes only at the process boundary: boto3 (fake_s3), the clock (fake_s3.CLOCK), uuid.uuid1 (the hex text
comes from the case, so that ids and bucket key order are reproducible), and - for `random: 2` - the
RNG (shuffle = reverse, random.choice = scripted index).  Ids are reported as ordinals (index of the
recording's first save in the history), never as text.  A case may also hold saves that FAIL part-way on S3
("failed": the fake bucket refuses the n-th mutation of that save); a recording none of whose saves succeeded has an
ordinal >= 4500.  A case may name a process time zone ("tz": the whole case - saves and lookup - runs with
os.environ['TZ'] set to it and time.tzset(), as on a host that is not on UTC; restored afterwards): the lookup
window is documented as naive UTC, so the answers must not depend on the zone of the process."""
import atexit
import copy
import datetime
import json
import os
import random as _random
import shutil
import time
import types
import uuid

import fake_s3
from driver_common import main
from lib.pyvals import to_py

from playback.studio.recordings_lookup import RecordingLookupProperties, find_matching_recording_ids
from playback.tape_cassettes.file_based.file_based_tape_cassette import FileBasedTapeCassette
from playback.tape_cassettes.in_memory.in_memory_tape_cassette import InMemoryTapeCassette
import playback.tape_cassettes.in_memory.in_memory_tape_cassette as mem_mod
from playback.recordings.memory.memory_recording import MemoryRecording
from playback.tape_recorder import TapeRecorder

BASE = datetime.datetime(2020, 2, 27, 0, 0, 0)
SCRATCH = "/tmp/lookup-scratch-%d" % os.getpid()
DECOYS = {'': ['metadata', 'p'], 'p': ['pq', 'p/q', ''], 'p/q': ['p', 'p/qq'], 'pq': ['p', ''],
          'metadata': ['', 'metadata/metadata'], 'xmetadata/y': ['x', 'xmetadata', 'y']}
_cache = {}
_counter = [0]
_next_hex = [None]


def _cleanup():
    shutil.rmtree(SCRATCH, ignore_errors=True)


atexit.register(_cleanup)


def at(us):
    return BASE + datetime.timedelta(microseconds=us)


class _FakeUuid(object):
    def __init__(self, hex_):
        self.hex = hex_


def _fake_uuid1(*_a, **_k):
    h = _next_hex[0]
    if h is None:   # not scripted (decoys): unique, never reported
        _counter[0] += 1
        h = "d%031x" % _counter[0]
    return _FakeUuid(h)


uuid.uuid1 = _fake_uuid1   # external: uuid generation


def meta_of(items):
    return {k: to_py(v) for k, v in items}


FAILED_BASE = 4500     # ordinals of recordings whose every save failed (never stored: no index in the history of saves)


def populated(hist, kp, decoys=None, failed=None, tz=None, reader=None, case=None):
    """reader (optional, round 7): {"probes": [i, ...], "own": bool} - the lookup of the case is ALSO made before hist[i]
    is saved (i = len(hist): after the last save; answers discarded) and the final lookup is made through the same objects
    that made those earlier lookups: a second cassette object on the same directory / bucket (own = false; the in-memory
    cassette has no second view: its one object) or the saving objects themselves (own = true).  What a lookup answers
    depends on what is saved now, not on what an earlier lookup of the same object saw."""
    decoys = DECOYS.get(kp, []) if decoys is None else decoys
    failed = failed or []
    key = json.dumps([hist, kp, decoys, failed, tz] + ([reader, {k: v for k, v in case.items() if k != "hist"}] if reader else []),
                     sort_keys=True)
    if key in _cache:
        return _cache[key]
    if len(_cache) > 6:
        for st in _cache.values():
            shutil.rmtree(st["dir"], ignore_errors=True)
        _cache.clear()
        fake_s3.reset()
    s3c = fake_s3.install()
    _counter[0] += 1
    bucket = 'lk%d' % _counter[0]            # never reuse a bucket name: the fake stores are global
    d = os.path.join(SCRATCH, "h%d" % _counter[0])
    os.makedirs(d)
    cas = {"mem": InMemoryTapeCassette(), "file": FileBasedTapeCassette(d),
           "s3": s3c.S3TapeCassette(bucket, key_prefix=kp, read_only=False)}
    ids = {"mem": {}, "file": {}, "s3": {}}       # id text -> ordinal
    lookup_cas = cas
    if reader and not reader.get("own"):
        lookup_cas = {"mem": cas["mem"], "file": FileBasedTapeCassette(d),
                      "s3": s3c.S3TapeCassette(bucket, key_prefix=kp, read_only=False)}
    probes = list((reader or {}).get("probes") or [])
    probe_log = []

    def probe(i):
        if i not in probes:
            return
        nowp = hist[i - 1]["t"] if i else 0
        view = {"cas": lookup_cas, "ids": ids, "s3c": s3c}
        pc = dict(case, now=nowp if i < len(hist) else case["now"])
        probe_log.append({n: (lambda o: o["ids"] if o["exc"] is None else o.get("excname"))(listing(view, n, pc))
                          for n in ("mem", "file", "s3")})
    by_uuid = {}                                   # uuid -> (ordinal, {cassette: id})
    files = {}                                     # file name -> ordinal
    first_clean = {}
    for i, e in enumerate(hist):
        first_clean.setdefault(e["uuid"], i)
    failed_res = []

    def failing_save(j, f):
        """a save that fails part-way ON S3: the bucket refuses mutation number f["crash"] of this save (0 = the first
        put, 1 = the second) and every later one, or ("only") just that one; save_recording raises, so the recording is not saved - nothing is stored on the other
        cassettes either.  The recording is created on all three (the ids exist, they may just never be listed)."""
        o = first_clean.get(f["uuid"], FAILED_BASE + min(k for k, g in enumerate(failed) if g["uuid"] == f["uuid"]))
        if f["uuid"] not in by_uuid:
            fake_s3.CLOCK.set(at(f["ct"]))
            made = {}
            for name, c in cas.items():
                _next_hex[0] = f["uuid"]
                try:
                    rec = c.create_new_recording(f["cat"])
                finally:
                    _next_hex[0] = None
                made[name] = rec
                ids[name][rec.id] = o
            by_uuid[f["uuid"]] = (o, {n: r.id for n, r in made.items()})
            r = made["s3"]
        else:
            r = MemoryRecording(by_uuid[f["uuid"]][1]["s3"])
        fake_s3.CLOCK.set(at(f["t"]))
        r.set_data('k', o)
        r.add_metadata(meta_of(f["meta"]))
        store = fake_s3.store(bucket)
        if f.get("only"):
            store.refuse_nth = f["crash"]        # only that one request is refused (size cap, throttling); later ones pass
        else:
            store.crash_after = len(store.log) + f["crash"]     # nothing gets through from that request on
        try:
            cas["s3"].save_recording(r)
            failed_res.append("ok")
        except Exception as ex:
            failed_res.append(type(ex).__name__)
        finally:
            store.crash_after = None
            store.refuse_nth = None

    for i, e in enumerate(hist):
        probe(i)
        for j, f in enumerate(failed):
            if f["after"] == i:
                failing_save(j, f)
        if e["uuid"] not in by_uuid:
            made = {}
            fake_s3.CLOCK.set(at(e["ct"]))
            for name, c in cas.items():
                _next_hex[0] = e["uuid"]
                try:
                    rec = c.create_new_recording(e["cat"])
                finally:
                    _next_hex[0] = None
                made[name] = rec
                ids[name][rec.id] = i
            by_uuid[e["uuid"]] = (first_clean[e["uuid"]], {n: r.id for n, r in made.items()})
            recs = made
        else:
            _, idmap = by_uuid[e["uuid"]]
            recs = {n: MemoryRecording(idmap[n]) for n in cas}
        o = by_uuid[e["uuid"]][0]
        fake_s3.CLOCK.set(at(e["t"]))
        before = set(os.listdir(d))
        for name, c in cas.items():
            r = recs[name]
            r.set_data('k', o)
            r.add_metadata(meta_of(e["meta"]))
            c.save_recording(r)
        for fn in set(os.listdir(d)) - before:
            files[fn] = o
    for j, f in enumerate(failed):
        if f["after"] >= len(hist):
            failing_save(j, f)
    # decoys: sibling key prefixes in the same bucket must never be listed
    for dk in decoys:
        dc = s3c.S3TapeCassette(bucket, key_prefix=dk, read_only=False)
        for e in hist[:2]:
            fake_s3.CLOCK.set(at(e["ct"]))
            r = dc.create_new_recording(e["cat"])
            r.set_data('k', -1)
            r.add_metadata(meta_of(e["meta"]))
            dc.save_recording(r)
    probe(len(hist))
    st = {"cas": lookup_cas, "ids": ids, "files": files, "dir": d, "s3c": s3c, "failed_res": failed_res,
          "probe_log": probe_log}
    _cache[key] = st
    return st


EXC_CODES = {"TypeError": 1, "NoSuchRecording": 2, "AssertionError": 3, "IndexError": 4, "KeyError": 5,
             "AttributeError": 6}


class _Script(object):
    def __init__(self, script):
        self.script = script or [0]
        self.step = 0

    def choice(self, seq):
        raw = self.script[self.step % len(self.script)]
        self.step += 1
        return seq[raw % len(seq)]


def _reverse_in_place(lst):
    lst.reverse()


def listing(st, name, case):
    import playback.tape_cassettes.s3.s3_basic_facade as facade
    s3c = st["s3c"]
    cas = st["cas"][name]
    idmap = st["ids"][name]
    start = None if case["start"] is None else at(case["start"])
    end = None if case["end"] is None else at(case["end"])
    flt = None if case["filter"] is None else meta_of(case["filter"])
    rnd = case["random"]
    saved = (mem_mod.shuffle, facade.shuffle, s3c.random)
    if rnd == 2:
        script = _Script(case.get("sched"))
        mem_mod.shuffle = _reverse_in_place
        facade.shuffle = _reverse_in_place
        s3c.random = types.SimpleNamespace(choice=script.choice)
    elif rnd == 1:
        _random.seed(case.get("seed", 0))
    fake_s3.CLOCK.set(at(case["now"]))
    out = {"ids": [], "n": 0, "exc": None, "unknown": [], "fetch_bad": [], "cat_bad": []}
    try:
        try:
            if case["skip"] is None:
                it = cas.iter_recording_ids(case["cat"], start_date=start, end_date=end, metadata=flt,
                                            limit=case["limit"], random_results=bool(rnd))
            else:
                props = RecordingLookupProperties(start, end_date=end, metadata=flt, limit=case["limit"],
                                                  random_sample=bool(rnd), skip_incomplete=case["skip"])
                it = find_matching_recording_ids(TapeRecorder(cas), case["cat"], props)
            got = list(it)
        finally:
            mem_mod.shuffle, facade.shuffle, s3c.random = saved
    except Exception as ex:   # the listing raised
        out["exc"] = EXC_CODES.get(type(ex).__name__, 9)
        out["excname"] = "%s: %s" % (type(ex).__name__, str(ex)[:200])
        return out
    out["n"] = len(got)
    out["dups"] = len(got) - len(set(got))
    for g in got:
        o = idmap.get(g, -1)
        out["ids"].append(o)
        if o < 0:
            out["unknown"].append(str(g)[:120])
        try:
            if cas.extract_recording_category(g) != case["cat"]:
                out["cat_bad"].append(o)
        except Exception as ex:
            out["cat_bad"].append("%s:%s" % (o, type(ex).__name__))
        try:
            r = cas.get_recording(g)
            if r.id != g or (o >= 0 and r.get_data('k') != o):
                out["fetch_bad"].append(o)
        except Exception as ex:
            out["fetch_bad"].append("%s:%s" % (o, type(ex).__name__))
    out["unknown"] = out["unknown"][:3]
    return out


def utc_offset_seconds():
    """the offset of the process's time zone (as the C library sees it) at the harness's base date"""
    return int(BASE.replace(hour=12).astimezone().utcoffset().total_seconds())


def run_lookup(case):
    if case.get("kind") == "cat":
        return run_cat(case)
    tz = case.get("tz")
    if not tz:
        return run_lookup_here(case)
    # the same saves and the same lookup in a process whose time zone is not UTC (the clock itself stays the fake one)
    saved = os.environ.get("TZ")
    os.environ["TZ"] = tz
    time.tzset()
    try:
        obs = run_lookup_here(case)
        obs["tz_offset"] = utc_offset_seconds()
        return obs
    finally:
        if saved is None:
            os.environ.pop("TZ", None)
        else:
            os.environ["TZ"] = saved
        time.tzset()


def run_lookup_here(case):
    st = populated(case["hist"], case["kp"], case.get("decoys"), case.get("failed"), case.get("tz"), case.get("reader"), case)
    names = os.listdir(st["dir"])
    obs = {"listdir": [st["files"].get(n, -1) for n in names]}
    if case.get("reader"):
        obs["earlier_lookups"] = st["probe_log"]
    if case.get("failed"):
        obs["failed_saves"] = st["failed_res"]
    for name in ("mem", "file", "s3"):
        obs[name] = listing(st, name, case)
    return obs


def run_cat(case):
    s3c = fake_s3.install()
    i = case["id"]
    m = InMemoryTapeCassette().extract_recording_category(i)
    f = FileBasedTapeCassette(SCRATCH if os.path.isdir(SCRATCH) else _mk()).extract_recording_category(i)
    try:
        s = s3c.S3TapeCassette('catb', read_only=True).extract_recording_category(i)
        err = None
    except AssertionError:
        s, err = None, "AssertionError"
    return {"mem": m, "file": f, "s3": s, "s3_err": err}


def _mk():
    os.makedirs(SCRATCH, exist_ok=True)
    return SCRATCH


if __name__ == '__main__':
    try:
        main({"C10": run_lookup})
    finally:
        _cleanup()
