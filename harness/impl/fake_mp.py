"""Deterministic single-threaded stand-ins for `multiprocessing`, the clock and `os.kill`, substituted as module
attributes of `playback.studio.equalizer` (names `mp`, `time`, `os`).  The REAL parent loop and the REAL worker loop
run unchanged on top of them.

Scheduling (resolves every race; the Gallina model `Equalizer/EqModel.v` follows exactly this):

* one global integer clock (seconds); only the parent's blocking `get(True, t)` on an empty queue and `join` on a busy
  worker advance it;
* a *worker turn* re-enters the process target (`Equalizer._playback_process_target`): the worker takes and serves
  queued tasks until the task queue is empty, then control returns to the simulator.  The real loop keeps no state
  across iterations, so re-entering it is indistinguishable from continuing it.  Turns are given to every live worker
  (oldest first) whenever the parent blocks in `get`, to the joined worker in `join`, and once more after the run
  (`settle`: the idle worker's next 50 ms poll);
* a parent `get(True, 1)` = turn; look; wait one second; turn; look; `Empty`;
* per-task behaviour of the worker (looked up by the recording id the real code handed to the player):
    exit0 / exit1   the player raises the real `SystemExit(code)` - the worker process ends while serving
    hang / hang_deaf  the worker never returns from the player (hang_deaf also ignores SIGTERM)
    late            the worker's `put` of the result is withheld and lands at the moment the parent kills the worker
    slow:<d>        the worker's `put` lands d seconds after the worker took the task
    drops           the worker's `put` is lost in transit (what `mp.Queue` does with an unpicklable result)
    unloadable      the worker's answer arrives, but the parent's `get` raises while loading it (what `mp.Queue.get`
                    does with an item that pickles in the worker and does not unpickle in the parent, e.g. an
                    exception class whose __init__ takes more arguments than it hands to Exception.__init__)
    put_raises      the worker's `put` of its result raises: the real worker loop answers `(False, message)` instead
    dies_before     the worker dies, idle, before taking this task from the queue (once; the task stays queued)
* where an idle worker dies.  An idle worker spends its time in the last BLOCKING call it made (`parked_on`):
  `Queue.get(True, t)` with t > 0 or `Event.wait(t)` with t != 0; non-blocking calls (`is_set()`, `get(False)`,
  `wait(0)`) do not move it.  A worker that dies while idle - killed by the parent at the timeout (`drops`) or by
  somebody else between two replays (`dies_before`) - dies there (an idle loop that blocks both on an event and on a
  queue is hit inside `Event.wait`, the place with the worse consequence):
    - inside `get(True, 0.05)` on the task queue a killed worker holds that queue's read lock
      (`multiprocessing.Queue.get` polls under `_rlock`): the queue is poisoned, no later worker can take a task from
      it (observed on real processes);
    - inside `Event.wait(t)` it is a registered sleeper of the event's condition (`multiprocessing.Condition.wait`
      releases `_sleeping_count` and only a sleeper that wakes up releases `_woken_count`): the next `Event.set()` -
      `notify_all()` - acquires `_woken_count` once per registered sleeper and blocks forever, holding the condition's
      lock (multiprocessing/synchronize.py; observed on real processes with the idle loop of seeded/C13_m6).
"""
import multiprocessing as _real_mp
import os as _real_os
import queue
import signal


class WorkerHang(BaseException):
    """leaves the real worker loop: the worker is stuck inside the player"""


class WorkerBusy(BaseException):
    """leaves the real worker loop: the worker is still working on the task (answer withheld until later)"""


class WorkerDiesBefore(BaseException):
    """leaves the real worker loop: the worker process dies while polling the task queue"""


class SimDeadlock(BaseException):
    """the parent would block forever (e.g. `join()` of a hung worker)"""


class WorkerSpins(BaseException):
    """leaves the real worker loop: it keeps polling an empty task queue without ever consulting a terminate flag the
    simulator can see (watchdog: the worker turn would never end)"""


SPIN_LIMIT = 200      # empty polls in ONE worker turn after which the worker is declared deaf to the terminate flag


def rid_of(x):
    """recording id carried by a queue item (plain id today; a repaired tree may tag it)"""
    if isinstance(x, str):
        return x
    if isinstance(x, (tuple, list)):
        for y in x:
            if isinstance(y, str):
                return y
    return None


class Sim(object):
    def __init__(self, script):
        self.script = script      # recording id -> behaviour text
        self.clock = 0
        self.procs = []
        self.events = []          # [kind, worker ordinal]
        self.polls = []           # parent polls per queued task
        self.worker = None        # fake process whose code is running now (None: parent)
        self.max_live = 0
        self.frozen = None        # snapshot taken when the parent blocks forever
        self.why = None           # ... and where it blocks
        self.poll_limit = 60      # polls for one task after which the parent is declared stuck (timeouts in the cases are <= 5 s)
        self.poll_ids = []        # recording id of every queued task (parallel to polls)
        self.several_runs = False  # several equalizers share this simulated process (multi-run cases)
        self.max_live_by_owner = {}

    def beh(self, rid):
        return self.script.get(rid, 'equal')

    def live(self):
        return [p for p in self.procs if p.is_alive_()]

    def turn_all(self):
        for p in list(self.procs):
            p.turn()

    def settle(self):
        self.turn_all()

    def signal(self, pid, sig):
        for p in self.procs:
            if p.pid == pid:
                p.signalled(sig)
                return
        raise ProcessLookupError(pid)

    def snapshot(self):
        return dict(
            workers=[[p.ordinal, list(p.served), p.state_name()] for p in self.procs],
            events=[list(e) for e in self.events], polls=list(self.polls), clock=self.clock,
            max_live=self.max_live)


class FakeTime(object):
    """`from time import time` today; also usable as a module (`time.time()`, `time.sleep`)"""

    def __init__(self, sim):
        self.sim = sim

    def __call__(self):
        return self.sim.clock

    def time(self):
        return self.sim.clock

    monotonic = time

    def sleep(self, s):
        self.sim.clock += s


class FakeEvent(object):
    def __init__(self, sim):
        self.sim = sim
        self.flag = False
        self.dead_sleepers = 0    # processes that died inside wait(): registered with the condition for ever

    def abandoned(self, w, killed):
        """worker w died while parked in wait()"""
        self.dead_sleepers += 1
        self.sim.events.append(['died-in-event-wait', w.ordinal])

    def set(self):
        self.flag = True
        if self.dead_sleepers:
            # notify_all() waits for every registered sleeper to wake up; a dead one never does
            self.sim.frozen = self.sim.snapshot()
            self.sim.why = 'Event.set() waits for a sleeper that died inside Event.wait()'
            raise SimDeadlock(self.sim.why)

    def clear(self):
        self.flag = False

    def is_set(self):
        w = self.sim.worker
        if w is not None:
            if self.flag:
                w.saw_flag = True
                return True
            return w.yield_requested      # task queue drained: hand control back to the simulator
        return self.flag

    def wait(self, timeout=None):
        w = self.sim.worker
        if w is not None and timeout != 0 and not self.flag:
            w.parked_on = w.parked_event = self      # a blocking call: this is where the idle worker sleeps
        return self.is_set()


class _Item(object):
    __slots__ = ('x', 'fired', 'unloadable')

    def __init__(self, x, unloadable=False):
        self.x = x
        self.fired = False      # dies_before already happened for this queue entry
        self.unloadable = unloadable    # the reader's get() raises while loading it


class FakeQueue(object):
    """Roles are decided by who calls: the parent or (inside a worker turn) the worker."""

    def __init__(self, sim):
        self.sim = sim
        self.items = []
        self.poisoned = False     # read lock left held by a worker killed while polling

    # -- common
    def close(self):
        pass

    def join_thread(self):
        pass

    def cancel_join_thread(self):
        pass

    def empty(self):
        return not self.items

    def qsize(self):
        return len(self.items)

    def abandoned(self, w, killed):
        """worker w died while parked in get(True, t): a killed one holds the read lock"""
        if killed:
            self.poisoned = True

    def _take(self):
        it = self.items.pop(0)
        if it.unloadable:
            raise TypeError('boom-unpickle')
        return it.x

    def put_nowait(self, x):
        self.put(x)

    def get_nowait(self):
        return self.get(False)

    def put(self, x, block=True, timeout=None):
        sim = self.sim
        w = sim.worker
        if w is None:                       # parent queues a task
            self.items.append(_Item(x))
            sim.polls.append(0)
            sim.poll_ids.append(rid_of(x))
            return
        b = sim.beh(w.playing)              # worker answers
        if b == 'put_raises' and not w.put_refused:
            w.put_refused = True
            raise ValueError('boom-put')
        w.put_refused = False
        w.playing = None
        if b == 'late':
            w.state, w.held, w.held_q = 'hung', x, self
            raise WorkerHang()
        if b.startswith('slow:') and int(b[5:]) > 0:
            w.state, w.held, w.held_q, w.ready = 'busy', x, self, w.took_at + int(b[5:])
            raise WorkerBusy()
        if b == 'drops':
            return
        self.items.append(_Item(x, unloadable=(b == 'unloadable')))

    def get(self, block=True, timeout=None):
        sim = self.sim
        w = sim.worker
        if w is not None:                   # worker polls for a task (real timeout 50 ms: no modelled time)
            if block and timeout != 0:
                w.parked_on = self          # a blocking call: this is where the idle worker sleeps
            if self.items and not self.poisoned:
                it = self.items[0]
                x = it.x
                rid = rid_of(x)
                if sim.beh(rid) == 'dies_before' and not it.fired:
                    it.fired = True
                    raise WorkerDiesBefore()
                self.items.pop(0)
                w.parked_on = w.parked_event = None
                w.served.append(rid)
                w.took_at = sim.clock
                return x
            w.yield_requested = True
            w.spins += 1
            if w.flag_blind or w.spins > SPIN_LIMIT:
                raise WorkerSpins()
            raise queue.Empty()
        # parent waits for an answer
        if sim.polls:
            sim.polls[-1] += 1
            if sim.polls[-1] > sim.poll_limit:      # a parent that never stops polling (the real run would hang)
                sim.frozen = sim.snapshot()
                raise SimDeadlock('the parent polls for ever')
        sim.turn_all()
        if self.items:
            return self._take()
        if not block:
            raise queue.Empty()
        if timeout is None:
            # blocking forever: keep waiting while somebody can still make progress
            for _ in range(10000):
                busy = [p for p in sim.live() if p.state == 'busy']
                if not busy:
                    sim.frozen = sim.snapshot()
                    raise SimDeadlock('get() without timeout on a queue nobody will fill')
                sim.clock = max(sim.clock, min(p.ready for p in busy))
                sim.turn_all()
                if self.items:
                    return self._take()
            raise SimDeadlock('get() without timeout')
        sim.clock += timeout
        sim.turn_all()
        if self.items:
            return self._take()
        raise queue.Empty()


class FakeProcess(object):
    def __init__(self, group=None, target=None, name=None, args=(), kwargs=None, daemon=None, sim=None):
        self.sim = sim
        self.target, self.args, self.kwargs = target, args, kwargs or {}
        self.name, self.daemon = name, daemon
        self.ordinal = len(sim.procs)
        self.pid = 1000 + self.ordinal
        self.state = 'new'        # new | idle | busy | hung | dead
        self.how = None           # exit | before | killed | terminated
        self.exitcode = None
        self.served = []
        self.held = self.held_q = None
        self.ready = 0
        self.took_at = 0
        self.deaf = False
        self.parked_on = None     # queue / event on which this worker sleeps while idle (its last blocking call)
        self.parked_event = None  # event it has slept on since it last took a task
        self.put_refused = False
        self.playing = None
        self.yield_requested = False
        self.saw_flag = False
        self.spins = 0
        self.flag_blind = False   # its loop never looks at a terminate flag (spin watchdog fired): idle for ever
        self.owner = getattr(target, '__self__', None)      # the equalizer whose worker this is
        sim.procs.append(self)

    # -- multiprocessing.Process API
    def start(self):
        self.state = 'idle'
        self.sim.events.append(['start', self.ordinal])
        self.sim.max_live = max(self.sim.max_live, len(self.sim.live()))
        k = id(self.owner)
        mine = len([p for p in self.sim.live() if p.owner is self.owner])
        self.sim.max_live_by_owner[k] = max(self.sim.max_live_by_owner.get(k, 0), mine)

    def is_alive(self):
        return self.is_alive_()

    def is_alive_(self):
        return self.state in ('idle', 'busy', 'hung')

    def join(self, timeout=None):
        sim = self.sim
        for _ in range(10000):
            if not self.is_alive_():
                return
            if self.state == 'hung':
                if timeout is None:
                    sim.frozen = sim.snapshot()
                    raise SimDeadlock('join() of a hung worker')
                sim.clock += timeout
                return
            if self.state == 'busy':
                if timeout is not None and self.ready > sim.clock + timeout:
                    sim.clock += timeout
                    return
                sim.clock = max(sim.clock, self.ready)
            before = (len(self.served), self.state)
            self.turn()
            if sim.several_runs:
                # the workers of the other runs keep polling while the parent blocks here
                for p in list(sim.procs):
                    if p is not self and p.owner is not self.owner:
                        p.turn()
            if self.is_alive_() and self.state == 'idle' and before == (len(self.served), 'idle'):
                # an idle worker that was not told to terminate never exits
                if timeout is None:
                    sim.frozen = sim.snapshot()
                    raise SimDeadlock('join() of an idle worker that was not told to terminate')
                sim.clock += timeout
                return
        raise SimDeadlock('join()')

    def terminate(self):
        self.signalled(signal.SIGTERM)

    def kill(self):
        self.signalled(signal.SIGKILL)

    def close(self):
        pass

    # -- simulator side
    def deathbed(self):
        """where an idle worker is when it dies: an idle loop that blocks in several places is hit in Event.wait"""
        return self.parked_event or self.parked_on

    def state_name(self):
        return self.state if self.state != 'dead' else 'dead:' + self.how

    def die(self, how, code):
        self.state, self.how, self.exitcode = 'dead', how, code
        self.sim.events.append([how, self.ordinal])

    def signalled(self, sig):
        if not self.is_alive_():
            return
        if sig == signal.SIGTERM and self.state == 'hung' and self.deaf:
            self.sim.events.append(['sigterm-ignored', self.ordinal])
            return
        if sig not in (signal.SIGTERM, signal.SIGKILL, signal.SIGINT):
            return
        if self.state == 'idle' and self.deathbed() is not None:
            self.deathbed().abandoned(self, killed=True)         # dies where it sleeps (read lock held / registered sleeper)
        if self.state == 'hung' and self.held_q is not None:     # the late answer lands just before the signal
            self.held_q.items.append(_Item(self.held))
            self.held = self.held_q = None
            self.sim.events.append(['late-answer', self.ordinal])
        self.die('killed', -int(sig))

    def turn(self):
        sim = self.sim
        if self.state == 'busy' and self.ready <= sim.clock:
            self.held_q.items.append(_Item(self.held))
            self.held = self.held_q = None
            self.state = 'idle'
        if self.state != 'idle':
            return
        prev = sim.worker
        sim.worker = self
        self.yield_requested = False
        self.saw_flag = False
        self.spins = 0
        try:
            self.target(*self.args, **self.kwargs)     # the REAL worker loop
            if self.saw_flag or not self.yield_requested:
                self.die('terminated', 0)              # the loop ended by itself: the process exits
        except SystemExit as ex:
            code = ex.code if isinstance(ex.code, int) else (0 if ex.code is None else 1)
            self.die('exit', code)
        except WorkerDiesBefore:
            self.die('before', -9)
            if self.deathbed() is not None:
                self.deathbed().abandoned(self, killed=False)
        except WorkerHang:
            if self.state != 'hung':
                self.state = 'hung'
        except WorkerBusy:
            pass
        except WorkerSpins:
            # the real process would poll on for ever: it stays alive (serving the tasks it finds) whatever flag
            # anybody sets; from now on its turn ends at the first empty poll
            if not self.flag_blind:
                sim.events.append(['ignores-terminate-flag', self.ordinal])
            self.flag_blind = True
            sim.why = sim.why or ('worker #%d polls its task queue without consulting a terminate flag created through '
                                  'the multiprocessing module the equalizer uses' % self.ordinal)
        finally:
            sim.worker = prev
            self.yield_requested = False


class FakeOS(object):
    def __init__(self, sim):
        self.sim = sim

    def kill(self, pid, sig):
        self.sim.signal(pid, sig)

    def __getattr__(self, name):
        return getattr(_real_os, name)


class FakeMP(object):
    def __init__(self, sim):
        self.sim = sim
        self.queues = type('queues', (), {'Empty': queue.Empty, 'Full': queue.Full})

    def Queue(self, maxsize=0):
        return FakeQueue(self.sim)

    SimpleQueue = JoinableQueue = Queue

    def Event(self):
        return FakeEvent(self.sim)

    def Process(self, *a, **kw):
        return FakeProcess(*a, sim=self.sim, **kw)

    def active_children(self):
        return self.sim.live()

    def __getattr__(self, name):
        return getattr(_real_mp, name)


def _shared_primitives(eqmod):
    """multiprocessing primitives the module created when it was imported (module globals, class attributes): they
    are shared by every equalizer of the process and were made by the real `multiprocessing`"""
    import multiprocessing.synchronize as _sync
    import multiprocessing.queues as _queues
    holders = [eqmod] + [v for v in vars(eqmod).values()
                         if isinstance(v, type) and getattr(v, '__module__', None) == eqmod.__name__]
    for h in holders:
        for k, v in list(vars(h).items()):
            if isinstance(v, _sync.Event):
                yield h, k, v, 'event'
            elif isinstance(v, (_queues.Queue, _queues.SimpleQueue)):
                yield h, k, v, 'queue'


def install(eqmod, sim):
    """substitute the three module attributes (and every multiprocessing primitive the module made at import time:
    one fake stand-in per primitive, shared exactly as the original is); returns a function that restores them"""
    saved = {k: getattr(eqmod, k, None) for k in ('mp', 'time', 'os')}
    shared = list(_shared_primitives(eqmod))
    eqmod.mp = FakeMP(sim)
    eqmod.time = FakeTime(sim)
    eqmod.os = FakeOS(sim)
    for h, k, v, kind in shared:
        fake = FakeEvent(sim) if kind == 'event' else FakeQueue(sim)
        if kind == 'event':
            fake.flag = bool(v.is_set())
        setattr(h, k, fake)

    def restore():
        for h, k, v, kind in shared:
            setattr(h, k, v)
        for k, v in saved.items():
            if v is None:
                if hasattr(eqmod, k):
                    delattr(eqmod, k)
            else:
                setattr(eqmod, k, v)
    return restore
