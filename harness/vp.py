#!/usr/bin/env python3
"""Check driver:  vp.py check C16 [--tier quick|thorough] [--replay FILE]

One run = proof obligations (full Coq build + Print Assumptions) + correspondence of the
hand-written model with /repo's current working tree (generated cases evaluated by
vm_compute inside Coq and by the real implementation) + the property's direct predicate
evaluated on the implementation's own observables (search for a failing input).
"""
import argparse
import importlib
import json
import os
import random
import subprocess
import sys
import time

HERE = os.path.dirname(os.path.abspath(__file__))
VERIF = os.path.dirname(HERE)
sys.path.insert(0, HERE)

from lib import coqrun  # noqa: E402

PY = "/venv/bin/python"
REPO = os.environ.get("VERIF_REPO", "/repo")
ALLOWED_AXIOMS = set()  # the development is axiom-free; anything printed by Print Assumptions is reported


def load_known_findings():
    out = {}
    path = os.path.join(VERIF, "KNOWN_FINDINGS.txt")
    for line in open(path, encoding="utf-8"):
        line = line.strip()
        if line.startswith("finding:"):
            parts = line.split()
            kv = dict(p.split("=", 1) for p in parts[1:3])
            out.setdefault(kv["property"], {})[kv["sig"]] = " ".join(parts[3:])
    return out


def run_driver(mod, cases, tag, shards=None, timeout=3000, extra_env=None):
    """Run the implementation driver (under /venv python, PYTHONPATH=/repo) on the cases; returns obs list."""
    work = os.path.join(coqrun.WORK, "impl_" + tag)
    os.makedirs(work, exist_ok=True)
    n = shards or min(coqrun.NCPU, max(1, len(cases) // 8))
    n = max(1, min(n, getattr(mod, "MAX_DRIVER_SHARDS", n)))
    size = (len(cases) + n - 1) // n if cases else 1
    chunks = [cases[k * size:(k + 1) * size] for k in range(n)]   # contiguous: neighbours share an interpreter
    procs = []
    env = dict(os.environ)
    env.update({"PYTHONPATH": REPO + os.pathsep + HERE, "PYTHONHASHSEED": "0", "OPTIBUS_PLAYBACK_VERIF": "1",
                "PYTHONDONTWRITEBYTECODE": "1"})
    env.pop("PLAYBACK_INTERCEPTED_FILE_SIZE_LIMIT", None)
    if extra_env:
        env.update(extra_env)
    for i, ch in enumerate(chunks):
        cin = os.path.join(work, "in_%d.json" % i)
        cout = os.path.join(work, "out_%d.json" % i)
        if os.path.exists(cout):
            os.remove(cout)
        json.dump(ch, open(cin, "w"))
        p = subprocess.Popen([PY, os.path.join(HERE, "impl", mod.DRIVER), mod.ID, cin, cout],
                             env=env, cwd="/", stdout=subprocess.PIPE, stderr=subprocess.PIPE, text=True)
        procs.append((i, p, cout))
    obs = [None] * len(cases)
    errs = []
    for i, p, cout in procs:
        try:
            so, se = p.communicate(timeout=timeout)
        except subprocess.TimeoutExpired:
            p.kill()
            so, se = p.communicate()
            errs.append("driver shard %d timed out" % i)
            continue
        if p.returncode is not None and p.returncode < 0:
            # killed by a signal (on a loaded machine: the kernel's OOM killer) - nothing to do with the cases: once more, alone
            cin = os.path.join(work, "in_%d.json" % i)
            time.sleep(3)
            r2 = subprocess.run([PY, os.path.join(HERE, "impl", mod.DRIVER), mod.ID, cin, cout], env=env, cwd="/",
                                capture_output=True, text=True, timeout=timeout)
            if r2.returncode != 0 or not os.path.exists(cout):
                errs.append("driver shard %d rc=%s (after a retry: rc=%s): %s" % (i, p.returncode, r2.returncode,
                                                                                 (r2.stdout + r2.stderr)[-3000:]))
                continue
        elif p.returncode != 0 or not os.path.exists(cout):
            errs.append("driver shard %d rc=%s: %s" % (i, p.returncode, (so + se)[-3000:]))
            continue
        res = json.load(open(cout))
        for j, o in enumerate(res):
            obs[i * size + j] = o
    return obs, errs


def write_replay(pid, name, payload):
    d = os.path.join(VERIF, "replays")
    os.makedirs(d, exist_ok=True)
    path = os.path.join(d, "%s_%s%s.json" % (pid, name, os.environ.get("VERIF_REPLAY_SUFFIX", "")))
    json.dump(payload, open(path, "w"), indent=1, default=str)
    return path


def shrink(mod, case, fails):
    """Greedy delta-debugging using the property's own `shrink_candidates` (if it defines one)."""
    cand = getattr(mod, "shrink_candidates", None)
    if cand is None:
        return case
    budget = 60
    cur = case
    progress = True
    while progress and budget > 0:
        progress = False
        for c in cand(cur):
            budget -= 1
            if budget <= 0:
                break
            obs, errs = run_driver(mod, [c], mod.ID + "_shrink", shards=1)
            if errs or obs[0] is None:
                continue
            if fails(c, obs[0]):
                cur = c
                progress = True
                break
    return cur


SHIFT_TZ = "Asia/Kolkata"


def _shift_env(mod):
    """the environment of the second run: diagnostics on, and (unless the property opts out) a process time zone far from
    UTC - nothing a property states may depend on either"""
    env = {"VERIF_LOG_DEBUG": "1"}
    if getattr(mod, "ENV_SHIFT_TZ", True):
        env["TZ"] = SHIFT_TZ
    return env


def _log_view(mod, case, o):
    """canonical text of the observables that must not depend on the logging level (None: nothing is claimed)"""
    if hasattr(mod, "log_invariant_view"):
        o = mod.log_invariant_view(case, o)
        if o is None:
            return None
    elif isinstance(o, dict):
        ign = set(getattr(mod, "LOG_VARIANT_IGNORE", ())) | {"alt"}
        o = {k: v for k, v in o.items() if k not in ign}
    return json.dumps(o, sort_keys=True, default=str)


def main():
    ap = argparse.ArgumentParser()
    ap.add_argument("cmd", choices=["check"])
    ap.add_argument("pid")
    ap.add_argument("--tier", default=os.environ.get("VERIF_TIER", "quick"))
    ap.add_argument("--replay")
    ap.add_argument("--no-build", action="store_true")
    a = ap.parse_args()
    pid = a.pid
    tier = a.tier if a.tier in ("quick", "thorough") else "quick"
    seed = int(os.environ.get("VERIF_SEED", "20260926"))
    t0 = time.time()
    mod = importlib.import_module("props." + pid.lower())
    known = load_known_findings().get(pid, {})
    violations = []       # (kind, replay path, suffix)
    notes = []

    # ---- 1. proof obligations -------------------------------------------------------------
    gate = coqrun.grep_gate()
    ok, blog = (True, "") if a.no_build else coqrun.build(clean=False)
    proofs_ok = coqrun.vo_exists("Properties/" + pid)
    model_ok = coqrun.vo_exists("Run/" + mod.RUN_MODULE)
    pa = coqrun.print_assumptions(pid) if proofs_ok else dict(theorems=[], printed=[], results=[], ok=False,
                                                              log=blog[-4000:], cmd="")
    obligations = len(pa["printed"]) if pa["printed"] else len(getattr(mod, "THEOREMS", [])) or 1
    discharged = sum(1 for (_, closed, axs) in pa["results"] if closed or set(axs) <= ALLOWED_AXIOMS)
    axioms_seen = sorted({x for (_, closed, axs) in pa["results"] for x in axs})
    proof_broken = bool(gate) or not proofs_ok or not pa["ok"] or discharged != obligations
    if proof_broken:
        notes.append("proof obligations not all discharged: gate=%s proofs_ok=%s pa_ok=%s %d/%d" %
                     (gate, proofs_ok, pa["ok"], discharged, obligations))

    # ---- 2./3. corpus + generation --------------------------------------------------------
    rng = random.Random(seed)
    if a.replay:
        rp = json.load(open(a.replay))
        cases = [rp["case"]] if "case" in rp else rp.get("cases", [])
        for c in cases:
            c.setdefault("origin", "replay")
    else:
        cases = []
        cdir = os.path.join(VERIF, "corpus", pid)
        if os.path.isdir(cdir):
            for f in sorted(os.listdir(cdir)):
                if f.endswith(".json"):
                    c = json.load(open(os.path.join(cdir, f)))
                    c["origin"] = "corpus:" + f
                    cases.append(c)
        gen = mod.generate(rng, tier)
        for c in gen:
            c.setdefault("origin", "gen")
        cases += gen

    # ---- 4. implementation run --------------------------------------------------------------
    obs, derrs = run_driver(mod, cases, pid)
    for k, env in enumerate(getattr(mod, "ALT_ENVS", [])):   # same cases again in a differently configured interpreter
        aobs, aerrs = run_driver(mod, cases, "%s_alt%d" % (pid, k), extra_env=env)
        derrs += aerrs
        for o, ao in zip(obs, aobs):
            if o is not None:
                o.setdefault("alt", []).append(ao)
    # behaviour must not depend on the logging level: a sample of the cases again with every logger at DEBUG and a handler
    # that formats each record; the observables must be the same (opt-in per property: deterministic drivers only)
    dbg_obs = {}
    if getattr(mod, "LOG_LEVEL_INVARIANT", False):
        stride = max(1, len(cases) // int(getattr(mod, "LOG_SAMPLE", 300)))
        pick = [i for i in range(len(cases)) if i % stride == 0 and obs[i] is not None]
        dobs, dre = run_driver(mod, [cases[i] for i in pick], pid + "_dbg", extra_env=_shift_env(mod))
        derrs += ["(logging at DEBUG) " + e for e in dre]
        dbg_obs = {i: o for i, o in zip(pick, dobs) if o is not None}
    if derrs:
        notes.append("driver errors: " + " | ".join(derrs)[:3000])

    # ---- 6. direct predicate (search for a failing input on the real code) ------------------
    direct_fail = []   # (idx, sig, msg)
    log_suspects = []
    for i, (c, o) in enumerate(zip(cases, obs)):
        if o is None:
            continue
        for sig, msg in mod.direct(c, o):
            direct_fail.append((i, sig, msg))
        if i in dbg_obs:
            # (a) the property's own predicate on the run made with logging at DEBUG
            base_sigs = {sg for (j, sg, _) in direct_fail if j == i}
            for sig, msg in mod.direct(c, dbg_obs[i]):
                if sig not in base_sigs:
                    direct_fail.append((i, sig, "[with every logger at DEBUG and every record formatted%s] " %
                                        (", TZ=" + SHIFT_TZ if getattr(mod, "ENV_SHIFT_TZ", True) else "") + msg))
            # (b) for drivers whose observables are the same from run to run: the observables themselves
            if getattr(mod, "LOG_EXACT", True):
                a_, b_ = _log_view(mod, c, o), _log_view(mod, c, dbg_obs[i])
                if a_ is not None and b_ is not None and a_ != b_:
                    log_suspects.append(i)
    if log_suspects:
        # confirm: the difference must reproduce (same observables again without DEBUG, same again with DEBUG) - a driver
        # whose observables vary from run to run for other reasons says nothing about the logging level
        sus = log_suspects[:40]
        again, _ = run_driver(mod, [cases[i] for i in sus], pid + "_dbg2", shards=1)
        dagain, _ = run_driver(mod, [cases[i] for i in sus], pid + "_dbg3", shards=1, extra_env=_shift_env(mod))
        for i, n2, d2 in zip(sus, again, dagain):
            if n2 is None or d2 is None:
                continue
            a_, b_ = _log_view(mod, cases[i], obs[i]), _log_view(mod, cases[i], dbg_obs[i])
            if _log_view(mod, cases[i], n2) == a_ and _log_view(mod, cases[i], d2) == b_:
                ja, jb = json.loads(a_), json.loads(b_)
                keys = sorted(k for k in set(ja) | set(jb) if ja.get(k) != jb.get(k)) if isinstance(ja, dict) and isinstance(jb, dict) else []
                direct_fail.append((i, "depends-on-logging-level", "the same case behaves differently when logging is switched to "
                                    "DEBUG (every record formatted)" + (" and the process time zone is " + SHIFT_TZ
                                                                        if getattr(mod, "ENV_SHIFT_TZ", True) else "") +
                                    ": observables %s differ; there: %s" %
                                    (keys[:5], json.dumps({k: jb.get(k) for k in keys[:2]}, default=str)[:300]
                                     if keys else b_[:300])))

    # ---- 5. model run (correspondence) -------------------------------------------------------
    bad, cerrs, coq_s = [], [], 0.0
    idx = [i for i, o in enumerate(obs) if o is not None]
    if model_ok and idx:
        prelude = mod.prelude(cases) if hasattr(mod, "prelude") else ""
        pairs = [(i, mod.to_gallina(cases[i], obs[i])) for i in idx]
        idx = [i for i, t in pairs if t is not None]      # None: case is implementation-side only
        terms = [t for _, t in pairs if t is not None]
        bad_local, cerrs, coq_s = coqrun.run_cases(pid, mod.RUN_MODULE, terms, prelude=prelude,
                                                   shard=getattr(mod, "SHARD", 300))
        bad = [idx[b] for b in bad_local]
        if hasattr(mod, "static_gate") and not a.replay:
            cerrs = cerrs + mod.static_gate(REPO)
    elif not model_ok:
        cerrs = ["model module Run/%s.vo missing (build failed): %s" % (mod.RUN_MODULE, blog[-1500:])]

    # ---- 7. classification ----------------------------------------------------------------------
    known_hits = {}
    new_fail = []
    for (i, sig, msg) in direct_fail:
        if sig in known:
            known_hits.setdefault(sig, (i, msg))
        else:
            new_fail.append((i, sig, msg))
    for sig, (i, msg) in sorted(known_hits.items()):
        print("KNOWN-FINDING: property=%s %s [%s; witness case #%d: %s]" % (pid, known[sig], sig, i, msg[:200]))
    # a case explained by a listed finding is not evidence against the model either (the model follows the documented
    # behaviour there); every other disagreement still counts
    known_idx = {i for (i, sig, _) in direct_fail if sig in known}
    bad = [i for i in bad if i not in known_idx]

    if new_fail:
        seen = set()
        for (i, sig, msg) in new_fail:
            if sig in seen:
                continue
            seen.add(sig)
            case = cases[i]
            if not a.replay:
                case = shrink(mod, case, lambda c, o, s=sig: any(x[0] == s for x in mod.direct(c, o)))
            o2, _ = run_driver(mod, [case], pid + "_rp", shards=1)
            path = write_replay(pid, "direct_%s" % sig.replace("/", "_")[:40], dict(
                property=pid, kind="direct-predicate failure on the implementation", signature=sig,
                message=msg, case=case, observed=o2[0], model_disagrees=(i in bad),
                how_to_replay="%s harness/vp.py check %s --replay <this file>" % (PY, pid)))
            violations.append(("direct", path, ""))
            if len(violations) >= 5:
                break
    elif bad or cerrs or derrs or proof_broken:
        # correspondence / proof broken but the direct predicate found nothing: search harder
        found = None
        if hasattr(mod, "search_harder") and not a.replay:
            extra = mod.search_harder(rng, [cases[i] for i in bad[:20]])
            if extra:
                eobs, _ = run_driver(mod, extra, pid + "_search")
                for c, o in zip(extra, eobs):
                    if o is None:
                        continue
                    fs = [x for x in mod.direct(c, o) if x[0] not in known]
                    if fs:
                        found = (c, o, fs[0])
                        break
        if found:
            c, o, (sig, msg) = found
            path = write_replay(pid, "direct_%s" % sig[:40], dict(
                property=pid, kind="direct-predicate failure on the implementation (found by extended search)",
                signature=sig, message=msg, case=c, observed=o))
            violations.append(("direct", path, ""))
        else:
            diag = None
            if bad and model_ok and hasattr(mod, "explain"):
                try:
                    diag = coqrun.eval_term(pid, mod.RUN_MODULE, mod.explain(cases[bad[0]], obs[bad[0]]),
                                            prelude=mod.prelude(cases) if hasattr(mod, "prelude") else "")
                except Exception as ex:  # diagnostics only
                    diag = "explain failed: %r" % (ex,)
            path = write_replay(pid, "correspondence", dict(
                property=pid,
                kind="no-failing-input-found: a proof obligation or the model/implementation correspondence "
                     "no longer checks, so the property is no longer shown to hold",
                broken_correspondence="Run.%s.check_case (model vs /repo working tree)" % mod.RUN_MODULE
                if (bad or cerrs or derrs) else None,
                broken_proofs=notes if proof_broken else None,
                theorems_resting_on_it=pa["theorems"] or getattr(mod, "THEOREMS", []),
                disagreeing_cases=[dict(case=cases[i], implementation_observed=obs[i]) for i in bad[:5]],
                model_says=diag, n_disagreements=len(bad), coq_errors=cerrs[:3], driver_errors=derrs[:3]))
            violations.append(("corr", path, " no-failing-input-found"))

    # ---- 8. evidence -------------------------------------------------------------------------------
    feats = {}
    distinct = set()
    for c in cases:
        fs = mod.features(c)
        for f in fs:
            feats[f] = feats.get(f, 0) + 1
        if mod.nontrivial(c):
            distinct.add(json.dumps({k: v for k, v in c.items() if k != "origin"}, sort_keys=True, default=str))
    samples = [{"case": cases[i], "implementation_observed": obs[i]} for i in
               sorted(set([0, len(cases) // 2, len(cases) - 1])) if 0 <= i < len(cases)]
    samples = json.loads(json.dumps(samples, default=str)[:200000]) if len(json.dumps(samples, default=str)) < 200000 \
        else [{"case": "too large to print", "n": len(cases)}]
    ev = dict(
        property_id=pid, tier=tier, seed=seed, level="proof",
        coverage=dict(
            obligations=obligations, discharged=discharged,
            checker_cmd="make -C coq (full .vo build, coqc 8.16.1) ; " + pa.get("cmd", ""),
            trusted_base=["Coq 8.16.1 kernel + vm_compute (no native_compute)",
                          "hand-written Gallina model tied to /repo by correspondence check Run.%s.check_case" % mod.RUN_MODULE,
                          "harness: generators, implementation driver %s, fakes, Python->Gallina literal emitter" % mod.DRIVER,
                          "axioms reported by Print Assumptions: %s" % (axioms_seen or "none (closed under the global context)")]
            + list(getattr(mod, "TRUSTED", [])),
            theorems=[dict(name=n, closed=c, axioms=x) for (n, c, x) in pa["results"]],
            evaluations=len(cases), distinct_nontrivial=len(distinct),
            rule=getattr(mod, "RULE", ""), samples=samples,
            traces_validated_against_impl=len(idx), model_impl_disagreements=len(bad),
            direct_predicate_failures=len(direct_fail), known_finding_hits=sorted(known_hits),
            input_distribution=dict(sorted(feats.items())), coq_eval_seconds=round(coq_s, 1),
            exhaustive=bool(getattr(mod, "EXHAUSTIVE", {}).get(tier, False)),
            notes=notes),
        assumptions=list(getattr(mod, "ASSUMPTIONS", [])),
        wall_s=round(time.time() - t0, 2), violations=len(violations))
    os.makedirs(os.path.join(VERIF, "evidence"), exist_ok=True)
    import re as _re
    if not a.replay and not os.environ.get("VERIF_NO_EVIDENCE") and _re.match(r"^C\d\d$", pid):
        # (runs against a scratch copy keep the evidence of /repo; REC is the model-wide correspondence, not a property)
        json.dump(ev, open(os.path.join(VERIF, "evidence", pid + ".json"), "w"), indent=1, default=str)

    for kind, path, suffix in violations:
        print("VIOLATION property=%s replay=%s%s" % (pid, path, suffix))
    print("%s %s: obligations %d/%d, cases %d (nontrivial distinct %d), model/impl disagreements %d, "
          "direct failures %d (known %d), %.1fs" %
          (pid, tier, discharged, obligations, len(cases), len(distinct), len(bad), len(direct_fail),
           len(direct_fail) - len(new_fail), time.time() - t0))
    for n_ in notes:
        print("note:", n_[:1500])
    for e in cerrs[:3]:
        print("coq error:", e[:1500])
    sys.exit(1 if violations else 0)


if __name__ == "__main__":
    main()
