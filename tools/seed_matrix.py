#!/usr/bin/env python3
"""Run every filed seeded change against the quick check of the property it breaks (scratch worktree of /repo per
change, /repo itself untouched) and write seeded/MATRIX.json + the 'detected_by' field of each meta.json.
usage: seed_matrix.py [ids...]   (default: all claimed properties' seeds)"""
import json
import os
import re
import shutil
import subprocess
import sys
from concurrent.futures import ThreadPoolExecutor

VERIF = os.path.dirname(os.path.dirname(os.path.abspath(__file__)))
man = json.load(open(os.path.join(VERIF, "MANIFEST.json")))
claimed = {c["property_id"] for c in man["checks"]}
seeds = sorted(d for d in os.listdir(os.path.join(VERIF, "seeded")) if os.path.isdir(os.path.join(VERIF, "seeded", d)))
if len(sys.argv) > 1:
    seeds = [s for s in seeds if s in sys.argv[1:] or s.split("_")[0] in sys.argv[1:]]
seeds = [s for s in seeds if s.split("_")[0] in claimed]


def run(seed):
    pid = seed.split("_")[0]
    mp = os.path.join(VERIF, "seeded", seed, "meta.json")
    if os.path.exists(mp) and json.load(open(mp)).get("obsolete"):
        return seed, dict(applies=True, obsolete=json.load(open(mp))["obsolete"], detected=False, by=None)
    wt = "/tmp/seedmx_%s" % seed
    subprocess.run("git -C /repo worktree remove --force %s 2>/dev/null; git -C /repo worktree add -q --detach %s HEAD" % (wt, wt),
                   shell=True)
    try:
        r = subprocess.run("git -C %s apply %s/seeded/%s/patch.diff" % (wt, VERIF, seed), shell=True, capture_output=True, text=True)
        if r.returncode != 0:
            return seed, dict(applies=False, note=r.stderr[-300:])
        env = dict(os.environ, VERIF_REPO=wt, VERIF_NO_EVIDENCE="1", VERIF_REPLAY_SUFFIX="_" + seed, VERIF_WORK_SUFFIX="_" + seed)
        try:
            p = subprocess.run("exec /venv/bin/python harness/vp.py check %s --tier quick --no-build" % pid, shell=True, cwd=VERIF,
                               capture_output=True, text=True, env=env, timeout=900)
        except subprocess.TimeoutExpired:
            return seed, dict(applies=True, rc=None, detected=False, by=None, note="the check did not finish within 900 s")
        viol = [l for l in p.stdout.splitlines() if l.startswith("VIOLATION")]
        direct = [re.search(r"replay=\S*?_direct_([^.\s]+)", l).group(1).replace("_" + seed, "") for l in viol if "_direct_" in l]
        corr = [l for l in viol if "no-failing-input-found" in l]
        return seed, dict(applies=True, rc=p.returncode, detected=p.returncode == 1 and bool(viol),
                          by=("direct predicate: " + ", ".join(direct)) if direct else
                             ("correspondence only (no-failing-input-found)" if corr else None),
                          summary=[l for l in p.stdout.splitlines() if l.startswith(pid + " ")][-1:])
    finally:
        subprocess.run("git -C /repo worktree remove --force %s" % wt, shell=True)
        shutil.rmtree(wt, ignore_errors=True)
        shutil.rmtree(os.path.join(VERIF, "coq", "work_" + seed), ignore_errors=True)


with ThreadPoolExecutor(max_workers=4) as ex:
    res = dict(ex.map(run, seeds))
json.dump(res, open(os.path.join(VERIF, "seeded", "MATRIX.json"), "w"), indent=1, sort_keys=True)
for seed, r in sorted(res.items()):
    mp = os.path.join(VERIF, "seeded", seed, "meta.json")
    if os.path.exists(mp):
        m = json.load(open(mp))
        m["detected_by"] = r.get("by") if r.get("detected") else (
            "obsolete (no longer a violation)" if r.get("obsolete") else "NOT DETECTED" if r.get("applies") else "patch no longer applies")
        json.dump(m, open(mp, "w"), indent=1)
    print(seed, "DETECTED" if r.get("detected") else "obsolete" if r.get("obsolete") else "missed", "-", r.get("by") or r.get("note"))
