#!/usr/bin/env python3
"""Run EVERY claimed property's quick check against behaviour-preserving changes (harmless refactors) of /repo and report
which checks raise an alarm (those are false alarms, or correspondence breaks that the brief allows but we want to know).
usage: run_harmless.py <dir with patch.diff> [...]      (scratch worktree per patch; /repo itself untouched)
Writes harmless/<name>/result.json when the directory is under /verif/harmless."""
import json
import os
import shutil
import subprocess
import sys
from concurrent.futures import ThreadPoolExecutor

VERIF = os.path.dirname(os.path.dirname(os.path.abspath(__file__)))
man = json.load(open(os.path.join(VERIF, "MANIFEST.json")))
pids = sorted(c["property_id"] for c in man["checks"])


def run(d):
    name = os.path.basename(os.path.normpath(d))
    wt = "/tmp/harmrun_%s" % name
    subprocess.run("git -C /repo worktree remove --force %s 2>/dev/null; git -C /repo worktree add -q --detach %s HEAD" % (wt, wt),
                   shell=True)
    res = {}
    try:
        r = subprocess.run("git -C %s apply %s/patch.diff" % (wt, os.path.abspath(d)), shell=True, capture_output=True, text=True)
        if r.returncode != 0:
            return name, {"applies": False, "note": r.stderr[-300:]}

        def one(pid):
            sfx = "_%s_%s" % (name, pid)
            env = dict(os.environ, VERIF_REPO=wt, VERIF_NO_EVIDENCE="1", VERIF_REPLAY_SUFFIX=sfx, VERIF_WORK_SUFFIX=sfx)
            p = subprocess.run("/venv/bin/python harness/vp.py check %s --tier quick --no-build" % pid, shell=True, cwd=VERIF,
                               capture_output=True, text=True, env=env, timeout=3600)
            shutil.rmtree(os.path.join(VERIF, "coq", "work" + sfx), ignore_errors=True)
            viol = [l for l in p.stdout.splitlines() if l.startswith("VIOLATION")]
            return pid, dict(rc=p.returncode, violations=viol,
                             summary=[l for l in p.stdout.splitlines() if l.startswith(pid + " ")][-1:],
                             notes=[l for l in p.stdout.splitlines() if l.startswith("note:")][:3])
        with ThreadPoolExecutor(max_workers=5) as ex:
            res = dict(ex.map(one, pids))
    finally:
        subprocess.run("git -C /repo worktree remove --force %s" % wt, shell=True)
        shutil.rmtree(wt, ignore_errors=True)
    return name, {"applies": True, "alarms": {p: r for p, r in res.items() if r["rc"] != 0}, "quiet": sorted(p for p, r in res.items() if r["rc"] == 0)}


for d in sys.argv[1:]:
    name, r = run(d)
    if os.path.abspath(d).startswith(os.path.join(VERIF, "harmless")):
        json.dump(r, open(os.path.join(d, "result.json"), "w"), indent=1, sort_keys=True)
    if not r.get("applies"):
        print(name, "patch does not apply:", r.get("note"))
        continue
    print(name, "ALARMS: %s" % sorted(r["alarms"]) if r["alarms"] else "quiet on all %d checks" % len(r["quiet"]))
    for p, a in sorted(r["alarms"].items()):
        for v in a["violations"][:3]:
            print("    ", v)
        for s in a["summary"]:
            print("    ", s)
