#!/usr/bin/env python3
"""Regenerate the table of section 9 of DESIGN.md (between the SEEDED-TABLE markers) from seeded/MATRIX.json."""
import json
import os
import re

VERIF = os.path.dirname(os.path.dirname(os.path.abspath(__file__)))
mx = json.load(open(os.path.join(VERIF, "seeded", "MATRIX.json")))
rows = ["| change | what it does (first line of the author's notes) | caught by |", "|---|---|---|"]
for seed in sorted(mx):
    r = mx[seed]
    notes = ""
    p = os.path.join(VERIF, "seeded", seed, "notes.md")
    if os.path.exists(p):
        for line in open(p):
            line = line.strip().lstrip("#").strip()
            if line and not line.lower().startswith(seed.lower()[:3] + " mutant") or (line and ":" in line):
                notes = line
                break
    notes = re.sub(r"\s+", " ", notes).replace("|", "/")[:150]
    if r.get("obsolete"):
        by = "obsolete: " + r["obsolete"][:110]
    elif not r.get("applies", True):
        by = "patch no longer applies to /repo HEAD (%s)" % (r.get("note") or "")[:60]
    elif r.get("detected"):
        by = r.get("by") or "VIOLATION"
    else:
        by = "**not detected**"
        mp = os.path.join(VERIF, "seeded", seed, "meta.json")
        if os.path.exists(mp):
            mm = json.load(open(mp))
            if mm.get("caught_by_sibling"):
                by = "**not detected by its own property's check**; caught by the check of " + ", ".join(mm["caught_by_sibling"])
            if mm.get("open_note"):
                by += " (" + mm["open_note"][:160] + ")"
    rows.append("| %s | %s | %s |" % (seed, notes, by))
n_det = sum(1 for r in mx.values() if r.get("detected"))
n_app = sum(1 for r in mx.values() if r.get("applies", True) and not r.get("obsolete"))
rows.append("")
rows.append("%d of %d applicable changes detected by the quick check of their property (%d filed)." % (n_det, n_app, len(mx)))
p = os.path.join(VERIF, "DESIGN.md")
s = open(p).read()
block = "<!-- SEEDED-TABLE -->\n" + "\n".join(rows) + "\n<!-- /SEEDED-TABLE -->"
if "<!-- /SEEDED-TABLE -->" in s:
    s = re.sub(r"<!-- SEEDED-TABLE -->.*?<!-- /SEEDED-TABLE -->", lambda m: block, s, flags=re.S)
else:
    s = s.replace("<!-- SEEDED-TABLE -->", block)
open(p, "w").write(s)
print("\n".join(rows[-3:]))
