#!/usr/bin/env python3
"""Regenerates /verif/MANIFEST.json from the table below (run after adding a property)."""
import json
import os

VERIF = os.path.dirname(os.path.dirname(os.path.abspath(__file__)))
PY = "/venv/bin/python"

# id -> (design section, level text, level note, technique)
CLAIMED = {
    "C16": ("6/C16",
            "Coq theorems over all integer instants (window exactness, day cover, nothing outside, distinct folders; "
            "legacy defect refuted with a witness) about a hand-written model of _get_id_prefixes + the last-modified "
            "predicate; model tied to /repo on every run by running the real S3TapeCassette (fake bucket, fake clock) "
            "and the model on the same window grid + random instants; direct predicate on the implementation searches "
            "for a failing window.",
            "Trusted: Coq kernel + vm_compute; hand-written model; correspondence harness (fake bucket behind the real "
            "S3BasicFacade, fake clock); strftime day formatting and 'process clock is UTC' are assumptions.",
            "Coq proof (lia over Z) + model/implementation correspondence by vm_compute"),
}

CLAIMED["C14"] = (
    "6/C14",
    "Coq theorems for every filter and every recorded value (match_value = Ans (match_spec), hence never raises; lifted "
    "to the per-key conjunction; legacy TypeError witnesses refuted) over a hand-written model of _match_metadata_value / "
    "_operator_filter / match_against_recorded_metadata, for every fnmatch oracle; model tied to /repo on every run by "
    "an exhaustive small universe (~9k filter x value pairs) + random deeper pairs evaluated by the real matcher and by "
    "the model; direct predicate (never raises, equals the documented meaning, deterministic) on the implementation.",
    "Trusted: Coq kernel + vm_compute; hand-written model of Python ==/</<= on the metadata value domain (exact "
    "rationals for floats); fnmatch is an oracle (section variable); correspondence harness.",
    "Coq proof (structural induction over filters) + exhaustive small-universe correspondence by vm_compute")

NOT_YET = {}


def main():
    props = [json.loads(l) for l in open(os.path.join(VERIF, "properties.jsonl"))]
    checks = []
    na = []
    for p in props:
        pid = p["id"]
        if pid in CLAIMED:
            sec, text, note, tech = CLAIMED[pid]
            checks.append(dict(
                property_id=pid,
                quick_cmd="%s harness/vp.py check %s --tier quick" % (PY, pid),
                thorough_cmd="%s harness/vp.py check %s --tier thorough" % (PY, pid),
                evidence_file="/verif/evidence/%s.json" % pid,
                replay_cmd_template="%s harness/vp.py check %s --replay {path}" % (PY, pid),
                engine="coq-correspondence",
                level_claimed=dict(category="proof", text=text, design_ref="DESIGN.md section " + sec),
                level_note=note, technique=tech))
        else:
            na.append(dict(property_id=pid, reason=NOT_YET.get(
                pid, "not claimed yet: the Coq model, theorems and correspondence check for this property are not "
                     "built in this round (DESIGN.md section 6 describes the plan); nothing is asserted about it")))
    man = dict(
        version=1,
        setup_cmd="%s harness/setup.py" % PY,
        hooks=dict(guard="OPTIBUS_PLAYBACK_VERIF", enable="no source hooks are used: drivers substitute module "
                   "attributes (fake boto3 / clock / multiprocessing) from outside the package; the variable is set by "
                   "the harness for uniformity only",
                   baseline_off_cmd="cd /repo && /venv/bin/python -m pytest -ra -q -p no:cacheprovider --timeout=900 "
                                    "--continue-on-collection-errors",
                   source_commits=[], add_only=True),
        engines=[dict(name="coq-correspondence", path="/verif/harness/vp.py",
                      serves_properties=sorted(CLAIMED),
                      kind_free_text="Coq 8.16.1 theorems about hand-written executable Gallina models (coq/theories); "
                                     "each run rebuilds the proofs, re-reads Print Assumptions, runs the real "
                                     "implementation from /repo's working tree and the model (vm_compute) on the same "
                                     "generated cases, and evaluates the property's direct predicate on the "
                                     "implementation's observables")],
        checks=checks,
        notes="Known findings and repaired defects: /verif/KNOWN_FINDINGS.txt. Seeded changes used to test the checks: "
              "/verif/seeded/. See DESIGN.md.",
        not_applicable=na)
    json.dump(man, open(os.path.join(VERIF, "MANIFEST.json"), "w"), indent=1)
    print("claimed:", sorted(CLAIMED), "not claimed:", [x["property_id"] for x in na])


if __name__ == "__main__":
    main()
