#!/usr/bin/env python3
"""Regenerates /verif/MANIFEST.json.  A property is claimed iff harness/props/<id>.py defines MANIFEST
(design_ref, text, note, technique[, category]) and coq/theories/Properties/<ID>.v exists; every other property is
listed under not_applicable with the reason in NOT_CLAIMED (or the default)."""
import importlib
import json
import os
import sys

VERIF = os.path.dirname(os.path.dirname(os.path.abspath(__file__)))
sys.path.insert(0, os.path.join(VERIF, "harness"))
PY = "/venv/bin/python"

NOT_CLAIMED = {}
# properties whose machinery exists but is being adapted right now: not claimed until it is green again
HOLD = {}
DEFAULT_REASON = ("not claimed: the Coq model, theorems and correspondence check for this property are not built yet "
                  "(DESIGN.md section 6 describes the plan); nothing is asserted about it")


def main():
    props = [json.loads(l) for l in open(os.path.join(VERIF, "properties.jsonl"))]
    checks, na, claimed = [], [], []
    for p in props:
        pid = p["id"]
        entry = None
        if pid in HOLD:
            na.append(dict(property_id=pid, reason=HOLD[pid]))
            continue
        if os.path.exists(os.path.join(VERIF, "harness", "props", pid.lower() + ".py")) and \
                os.path.exists(os.path.join(VERIF, "coq", "theories", "Properties", pid + ".v")):
            mod = importlib.import_module("props." + pid.lower())
            entry = getattr(mod, "MANIFEST", None)
        if entry:
            claimed.append(pid)
            checks.append(dict(
                property_id=pid,
                quick_cmd="%s harness/vp.py check %s --tier quick" % (PY, pid),
                thorough_cmd="%s harness/vp.py check %s --tier thorough" % (PY, pid),
                evidence_file="/verif/evidence/%s.json" % pid,
                replay_cmd_template="%s harness/vp.py check %s --replay {path}" % (PY, pid),
                engine="coq-correspondence",
                level_claimed=dict(category=entry.get("category", "proof"), text=entry["text"],
                                   design_ref="DESIGN.md section " + entry["design_ref"]),
                level_note=entry["note"], technique=entry["technique"]))
        else:
            na.append(dict(property_id=pid, reason=NOT_CLAIMED.get(pid, DEFAULT_REASON)))
    man = dict(
        version=1,
        setup_cmd="%s harness/setup.py" % PY,
        hooks=dict(guard="OPTIBUS_PLAYBACK_VERIF", enable="no source hooks are used: drivers substitute module "
                   "attributes (fake boto3 / clock / multiprocessing) from outside the package; the variable is set by "
                   "the harness for uniformity only",
                   baseline_off_cmd="cd /repo && /venv/bin/python -m pytest -ra -q -p no:cacheprovider --timeout=900 "
                                    "--continue-on-collection-errors",
                   source_commits=[], add_only=True),
        engines=[dict(name="coq-correspondence", path="/verif/harness/vp.py",
                      serves_properties=claimed,
                      kind_free_text="Coq 8.16.1 theorems about hand-written executable Gallina models (coq/theories); "
                                     "each run rebuilds the proofs, re-reads Print Assumptions, runs the real "
                                     "implementation from /repo's working tree and the model (vm_compute) on the same "
                                     "generated cases, and evaluates the property's direct predicate on the "
                                     "implementation's observables")],
        checks=checks,
        notes="Known findings and repaired defects: /verif/KNOWN_FINDINGS.txt. Seeded changes used to test the checks: "
              "/verif/seeded/. See DESIGN.md.",
        not_applicable=na)
    json.dump(man, open(os.path.join(VERIF, "MANIFEST.json"), "w"), indent=1)
    print("claimed:", claimed, "not claimed:", [x["property_id"] for x in na])


if __name__ == "__main__":
    main()
