#!/usr/bin/env python3
"""Confirm a sub-agent's seeded change in a fresh scratch worktree and file it under /verif/seeded/.

usage: confirm_seed.py C14 m1 [C14 m2 ...]
Checks: demo passes on the clean tree; patch applies; existing suite still 105 passed (same 2 failed / 1 error);
demo fails with the patch.  Only then is /verif/seeded/<id>_<m>/ written (patch.diff, demo.py, notes.md, meta.json)."""
import json
import os
import re
import shutil
import subprocess
import sys

VERIF = os.path.dirname(os.path.dirname(os.path.abspath(__file__)))
PY = "/venv/bin/python"


def sh(cmd, cwd=None, env=None, timeout=1200):
    r = subprocess.run(cmd, shell=True, cwd=cwd, env=env, capture_output=True, text=True, timeout=timeout)
    return r.returncode, (r.stdout + r.stderr)


def confirm(pid, m, src=None, name=None):
    src = src or "/tmp/mut_%s.out/%s" % (pid, m)
    name = name or m
    wt = "/tmp/confirm_%s_%s" % (pid, name)
    sh("git -C /repo worktree remove --force %s" % wt)
    rc, out = sh("git -C /repo worktree add -q --detach %s HEAD" % wt)
    assert rc == 0, out
    env = dict(os.environ, PYTHONPATH=wt, PYTHONHASHSEED="0", PYTHONDONTWRITEBYTECODE="1")
    res = dict(property=pid, mutant=m)
    try:
        rc, out = sh("%s %s/demo.py" % (PY, src), cwd=wt, env=env)
        res["demo_clean_rc"] = rc
        rc, out = sh("git apply %s/patch.diff" % src, cwd=wt)
        res["apply_rc"] = rc
        rc, out = sh("%s -m pytest -q -p no:cacheprovider --timeout=900 --continue-on-collection-errors 2>&1 | tail -3" % PY,
                     cwd=wt, env=env)
        m_ = re.search(r"(\d+) failed, (\d+) passed.*?(\d+) error", out)
        res["suite"] = m_.group(0) if m_ else out[-300:]
        suite_ok = bool(m_) and m_.group(1) == "2" and m_.group(2) == "105" and m_.group(3) == "1"
        rc, out = sh("%s %s/demo.py" % (PY, src), cwd=wt, env=env)
        res["demo_mutant_rc"] = rc
        res["demo_mutant_tail"] = out[-400:]
        ok = res["demo_clean_rc"] == 0 and res["apply_rc"] == 0 and suite_ok and res["demo_mutant_rc"] != 0
        res["confirmed"] = ok
        if ok:
            dst = os.path.join(VERIF, "seeded", "%s_%s" % (pid, name))
            os.makedirs(dst, exist_ok=True)
            for f in ("patch.diff", "demo.py", "notes.md"):
                if os.path.exists(os.path.join(src, f)):
                    shutil.copy(os.path.join(src, f), os.path.join(dst, f))
            notes = open(os.path.join(src, "notes.md")).read() if os.path.exists(os.path.join(src, "notes.md")) else ""
            meta = dict(breaks_property=pid, source="independent sub-agent given only the property text and a scratch worktree",
                        needs_to_manifest=notes.strip()[:1500],
                        confirmed_by="tools/confirm_seed.py in a fresh scratch worktree of /repo HEAD: demo passes clean (rc 0), "
                                     "patch applies, suite '%s', demo fails with patch (rc %s)" % (res["suite"], res["demo_mutant_rc"]),
                        repo_commit=sh("git -C /repo rev-parse --short HEAD")[1].strip(),
                        detected_by=None)
            json.dump(meta, open(os.path.join(dst, "meta.json"), "w"), indent=1)
    finally:
        sh("git -C /repo worktree remove --force %s" % wt)
        shutil.rmtree(wt, ignore_errors=True)
    return res


if __name__ == "__main__":
    args = sys.argv[1:]
    if args and args[0] == "--batch2":
        # confirm_seed.py --batch2 C01 C02 ...   (sources /tmp/mut2_<id>.out/m1|m2, filed as <id>_m3|m4)
        for pid in args[1:]:
            for m, name in (("m1", "m3"), ("m2", "m4")):
                r = confirm(pid, m, src="/tmp/mut2_%s.out/%s" % (pid, m), name=name)
                print(json.dumps({k: v for k, v in r.items() if k != "demo_mutant_tail"}))
        sys.exit(0)
    if args and args[0] == "--auto":
        # confirm_seed.py --auto <src pattern with {pid}> C01 C02 ...   files <src>/m1, m2 under the next free names
        pat = args[1]
        for pid in args[2:]:
            have = [int(d.split("_m")[1]) for d in os.listdir(os.path.join(VERIF, "seeded"))
                    if d.startswith(pid + "_m") and d.split("_m")[1].isdigit()]
            nxt = max(have + [0]) + 1
            for k, m in enumerate(("m1", "m2")):
                src = os.path.join(pat.format(pid=pid), m)
                if not os.path.exists(os.path.join(src, "patch.diff")):
                    print(json.dumps(dict(property=pid, mutant=m, missing=True)))
                    continue
                r = confirm(pid, m, src=src, name="m%d" % (nxt + k))
                r["filed_as"] = "%s_m%d" % (pid, nxt + k) if r.get("confirmed") else None
                print(json.dumps({k2: v for k2, v in r.items() if k2 != "demo_mutant_tail"}))
        sys.exit(0)
    for i in range(0, len(args), 2):
        r = confirm(args[i], args[i + 1])
        print(json.dumps({k: v for k, v in r.items() if k != "demo_mutant_tail"}))
