#!/usr/bin/env python3
"""Run checks against a seeded change WITHOUT touching /repo: a scratch worktree of /repo HEAD gets the patch and
the checks run with VERIF_REPO pointing at it.   usage: run_seeded.py <seed> <pid> [<pid>...]
<seed> is a directory name under /verif/seeded, a path to a .diff, or 'revert:<commit>'.  TIER=quick|thorough."""
import os
import shutil
import subprocess
import sys

VERIF = os.path.dirname(os.path.dirname(os.path.abspath(__file__)))
seed, pids = sys.argv[1], sys.argv[2:]
wt = "/tmp/seedrun_%d" % os.getpid()
subprocess.run("git -C /repo worktree add -q --detach %s HEAD" % wt, shell=True, check=True)
try:
    if seed.startswith("revert:"):
        r = subprocess.run("git -C %s show %s | git -C %s apply -R" % (wt, seed.split(":")[1], wt), shell=True)
    elif os.path.isfile(seed):
        r = subprocess.run("git -C %s apply %s" % (wt, os.path.abspath(seed)), shell=True)
    else:
        r = subprocess.run("git -C %s apply %s/seeded/%s/patch.diff" % (wt, VERIF, seed), shell=True)
    assert r.returncode == 0, "patch does not apply"
    for pid in pids:
        tier = os.environ.get("TIER", "quick")
        env = dict(os.environ, VERIF_REPO=wt, VERIF_NO_EVIDENCE="1")
        p = subprocess.run("/venv/bin/python harness/vp.py check %s --tier %s --no-build" % (pid, tier), shell=True, cwd=VERIF,
                           capture_output=True, text=True, env=env)
        lines = [l for l in p.stdout.splitlines() if l.startswith("VIOLATION") or l.startswith(pid)]
        print(seed, pid, "rc=%d" % p.returncode, *lines[:4], sep="\n   ")
        if p.returncode not in (0, 1) or (p.returncode == 1 and not lines):
            print(p.stdout[-1500:], p.stderr[-1500:])
finally:
    subprocess.run("git -C /repo worktree remove --force %s" % wt, shell=True)
    shutil.rmtree(wt, ignore_errors=True)
