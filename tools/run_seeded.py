#!/usr/bin/env python3
"""Apply a seeded change to /repo, run the given checks (quick), undo it.  usage: run_seeded.py <seed> <pid> [<pid>...]
<seed> is a directory name under /verif/seeded or 'revert:<commit>'."""
import json, os, subprocess, sys
VERIF = os.path.dirname(os.path.dirname(os.path.abspath(__file__)))
seed, pids = sys.argv[1], sys.argv[2:]
assert subprocess.run("git -C /repo status --porcelain", shell=True, capture_output=True, text=True).stdout.strip() == "", "repo dirty"
if seed.startswith("revert:"):
    r = subprocess.run("git -C /repo show %s | git -C /repo apply -R" % seed.split(":")[1], shell=True)
else:
    r = subprocess.run("git -C /repo apply %s/seeded/%s/patch.diff" % (VERIF, seed), shell=True)
assert r.returncode == 0
res = {}
try:
    for pid in pids:
        tier = os.environ.get("TIER", "quick")
        p = subprocess.run("/venv/bin/python harness/vp.py check %s --tier %s --no-build" % (pid, tier), shell=True, cwd=VERIF,
                           capture_output=True, text=True)
        lines = [l for l in p.stdout.splitlines() if l.startswith("VIOLATION") or l.startswith(pid)]
        res[pid] = dict(rc=p.returncode, lines=lines[:4])
        print(seed, pid, "rc=%d" % p.returncode, *lines[:3], sep="\n   ")
        if p.returncode not in (0, 1) or (p.returncode == 1 and not lines):
            print(p.stdout[-1500:], p.stderr[-1500:])
finally:
    subprocess.run("git -C /repo checkout -- . && git -C /repo clean -fdq playback", shell=True)
    subprocess.run("git checkout -q -- evidence 2>/dev/null", shell=True, cwd=VERIF)
